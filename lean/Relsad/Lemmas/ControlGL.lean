/-
Fourth inductive invariant (C06, return to normal): nothing is out of service or open without a reason.

  G1  a line that is out of service lies in an out-of-service section, or carries an open breaker,
      or carries an open disconnector
  G2  an open disconnector sits on a line of an out-of-service section, or on a line with an open
      breaker, or is listed by some out-of-service section

With every section in service and every breaker closed this leaves no line out and no switch open.
-/
import Relsad.Lemmas.ControlNfL

namespace Relsad.Control

/-- an open breaker sits on line `l` -/
def BrOpen (C : Cfg) (s : St) (l : Nat) : Prop := ∃ c, (lineOf C l).cb = some c ∧ gb s.cbOpen c = true

def Just1 (C : Cfg) (s : St) (l : Nat) : Prop :=
  gb s.secConn (lineOf C l).sec = false ∨ BrOpen C s l ∨ ∃ d ∈ (lineOf C l).discons, gb s.dOpen d = true

def Just2 (C : Cfg) (s : St) (d : Nat) : Prop :=
  gb s.secConn (lineOf C (C.disconLine.getD d 0)).sec = false ∨ BrOpen C s (C.disconLine.getD d 0) ∨
  ∃ k, k < C.secs.length ∧ Sw.discon d ∈ (secOf C k).switches ∧ gb s.secConn k = false

structure G (C : Cfg) (s : St) : Prop where
  dlen : s.dOpen.length = C.disconLine.length
  line : ∀ l, l < C.lines.length → gb s.conn l = false → Just1 C s l
  discon : ∀ d, d < C.disconLine.length → gb s.dOpen d = true → Just2 C s d

theorem G.init (C : Cfg) : G C (St.init C) := by
  refine ⟨by simp [St.init], ?_, ?_⟩
  · intro l hl h
    rw [show gb (St.init C).conn l = true from gb_map_true _ _ hl] at h; exact absurd h (by simp)
  · intro d _ h
    rw [show gb (St.init C).dOpen d = false from gb_map_const _ _] at h; exact absurd h (by simp)

theorem G.congr {C : Cfg} {s s' : St} (h : G C s) (hc : s'.conn = s.conn) (hd : s'.dOpen = s.dOpen) (hb : s'.cbOpen = s.cbOpen)
    (hs : s'.secConn = s.secConn) : G C s' := by
  refine ⟨by rw [hd]; exact h.dlen, ?_, ?_⟩
  · intro l hl hx
    rw [hc] at hx
    unfold Just1 BrOpen; rw [hs, hb, hd]; exact h.line l hl hx
  · intro d hd' hx
    rw [hd] at hx
    unfold Just2 BrOpen; rw [hs, hb]; exact h.discon d hd' hx

/-! ### opening operations -/

/-- an opening step: sections only go out, switches only open, lines only go out; whatever newly went out / opened has a reason -/
structure OpensG (C : Cfg) (s s' : St) : Prop where
  opens : Opens s s'
  dlen : s'.dOpen.length = s.dOpen.length
  secDown : ∀ k, gb s.secConn k = false → gb s'.secConn k = false
  line : ∀ l, l < C.lines.length → gb s'.conn l = false → gb s.conn l = false ∨ Just1 C s' l
  discon : ∀ d, d < C.disconLine.length → gb s'.dOpen d = true → gb s.dOpen d = true ∨ Just2 C s' d

theorem brOpen_mono {C : Cfg} {a b : St} (h : Opens a b) (l : Nat) (hb : BrOpen C a l) : BrOpen C b l := by
  obtain ⟨c, hc, ho⟩ := hb; exact ⟨c, hc, h.cbOpen c ho⟩

theorem just1_mono {C : Cfg} {a b : St} (h : Opens a b) (hs : ∀ k, gb a.secConn k = false → gb b.secConn k = false) (l : Nat)
    (hj : Just1 C a l) : Just1 C b l := by
  rcases hj with h1 | h1 | ⟨d, hd, ho⟩
  · exact Or.inl (hs _ h1)
  · exact Or.inr (Or.inl (brOpen_mono h l h1))
  · exact Or.inr (Or.inr ⟨d, hd, h.dOpen d ho⟩)

theorem just2_mono {C : Cfg} {a b : St} (h : Opens a b) (hs : ∀ k, gb a.secConn k = false → gb b.secConn k = false) (d : Nat)
    (hj : Just2 C a d) : Just2 C b d := by
  rcases hj with h1 | h1 | ⟨k, hk, hsw, hsc⟩
  · exact Or.inl (hs _ h1)
  · exact Or.inr (Or.inl (brOpen_mono h _ h1))
  · exact Or.inr (Or.inr ⟨k, hk, hsw, hs k hsc⟩)

theorem OpensG.refl (C : Cfg) (s : St) : OpensG C s s := ⟨Opens.refl s, rfl, fun _ h => h, fun _ _ h => Or.inl h, fun _ _ h => Or.inl h⟩

theorem OpensG.trans {C : Cfg} {a b c : St} (h1 : OpensG C a b) (h2 : OpensG C b c) : OpensG C a c := by
  refine ⟨Opens.trans h1.opens h2.opens, h2.dlen.trans h1.dlen, fun k hk => h2.secDown k (h1.secDown k hk), ?_, ?_⟩
  · intro l hl hx
    rcases h2.line l hl hx with h | h
    · rcases h1.line l hl h with h' | h'
      · exact Or.inl h'
      · exact Or.inr (just1_mono h2.opens h2.secDown l h')
    · exact Or.inr h
  · intro d hd hx
    rcases h2.discon d hd hx with h | h
    · rcases h1.discon d hd h with h' | h'
      · exact Or.inl h'
      · exact Or.inr (just2_mono h2.opens h2.secDown d h')
    · exact Or.inr h

theorem G.of_opensG {C : Cfg} {s s' : St} (h : G C s) (o : OpensG C s s') : G C s' := by
  refine ⟨o.dlen.trans h.dlen, ?_, ?_⟩
  · intro l hl hx
    rcases o.line l hl hx with h' | h'
    · exact just1_mono o.opens o.secDown l (h.line l hl h')
    · exact h'
  · intro d hd hx
    rcases o.discon d hd hx with h' | h'
    · exact just2_mono o.opens o.secDown d (h.discon d hd h')
    · exact h'

theorem opensG_foldl {C : Cfg} {α : Type} (f : St → α → St) (P : St → Prop) (Q : α → Prop)
    (hP : ∀ s a, P s → Q a → P (f s a)) (hf : ∀ s a, P s → Q a → OpensG C s (f s a))
    (l : List α) (hQ : ∀ a ∈ l, Q a) (s : St) (h : P s) : OpensG C s (l.foldl f s) ∧ P (l.foldl f s) := by
  induction l generalizing s with
  | nil => exact ⟨OpensG.refl C s, h⟩
  | cons a as ih =>
    simp only [List.foldl_cons]
    have qa := hQ a List.mem_cons_self
    obtain ⟨o, p⟩ := ih (fun x hx => hQ x (List.mem_cons_of_mem _ hx)) (f s a) (hP s a h qa)
    exact ⟨OpensG.trans (hf s a h qa) o, p⟩

/-- sizes the opening lemmas need -/
structure GSz (C : Cfg) (s : St) : Prop where
  conn : s.conn.length = C.lines.length
  dOpen : s.dOpen.length = C.disconLine.length
  cbOpen : s.cbOpen.length = C.cbLine.length
  secConn : s.secConn.length = C.secs.length

theorem GSz.of_opensG {C : Cfg} {s s' : St} (h : GSz C s) (o : OpensG C s s') (l : SameLen s s') : GSz C s' :=
  ⟨l.conn.trans h.conn, o.dlen.trans h.dOpen, l.cbOpen.trans h.cbOpen, l.secConn.trans h.secConn⟩

theorem just2_disconOpen {C : Cfg} (s : St) (d e : Nat) (h : Just2 C s e) : Just2 C (disconOpen C s d) e := h

/-- opening a disconnector that has a reason to be open -/
theorem opensG_disconOpen {C : Cfg} (w2 : WF2 C) (s : St) (hs : GSz C s) (d : Nat) (hd : d < C.disconLine.length) (hj : Just2 C s d) :
    OpensG C s (disconOpen C s d) := by
  have hopen : gb (disconOpen C s d).dOpen d = true := by
    show gb (s.dOpen.set d true) d = true
    exact gb_set_self _ _ _ (by rw [hs.dOpen]; exact hd)
  refine ⟨opens_disconOpen C s d, by show (s.dOpen.set d true).length = _; simp, fun _ h => h, ?_, ?_⟩
  · intro l _ hx
    by_cases hl : C.disconLine.getD d 0 = l
    · right
      exact Or.inr (Or.inr ⟨d, hl ▸ w2.disc_complete d hd, hopen⟩)
    · left
      change gb (s.conn.set (C.disconLine.getD d 0) false) l = false at hx
      rw [gb_set_ne _ _ _ _ hl] at hx; exact hx
  · intro e _ hx
    by_cases hde : d = e
    · subst hde; exact Or.inr (just2_disconOpen s d d hj)
    · left
      change gb (s.dOpen.set d true) e = true at hx
      rw [gb_set_ne _ _ _ _ hde] at hx; exact hx

/-- opening a breaker -/
theorem opensG_cbOpenOp {C : Cfg} (w : WF C) (w2 : WF2 C) (s : St) (hs : GSz C s) (c : Nat) (hc : c < C.cbLine.length) :
    OpensG C s (cbOpenOp C s c) ∧ GSz C (cbOpenOp C s c) := by
  have hsl : SameLen s (cbOpenOp C s c) := sameLen_cbOpenOp C s c
  suffices h : OpensG C s (cbOpenOp C s c) from ⟨h, hs.of_opensG h hsl⟩
  obtain ⟨hl0, hcb⟩ := w2.cb_of_line c hc
  unfold cbOpenOp
  simp only
  set l0 := C.cbLine.getD c 0 with hl0d
  set s1 : St := { s with cbOpen := s.cbOpen.set c true } with hs1
  have hopen1 : gb s1.cbOpen c = true := gb_set_self _ _ _ (by rw [hs.cbOpen]; exact hc)
  have hs1z : GSz C s1 := ⟨hs.conn, hs.dOpen, by simp [hs1, hs.cbOpen], hs.secConn⟩
  have o01 : OpensG C s s1 := by
    refine ⟨⟨fun _ h => h, fun _ h => h, ?_⟩, rfl, fun _ h => h, fun _ _ h => Or.inl h, fun _ _ h => Or.inl h⟩
    intro x h
    show gb (s.cbOpen.set c true) x = true
    rw [gb_set]; split_ifs
    · rfl
    · exact h
  have fold := opensG_foldl (C := C) (fun s d => if gb s.dOpen d then s else disconOpen C s d)
    (fun x => GSz C x ∧ gb x.cbOpen c = true) (fun d => d < C.disconLine.length ∧ C.disconLine.getD d 0 = l0)
    (by
      intro x d hx _
      split_ifs
      · exact hx
      · exact ⟨⟨(sameLen_disconOpen C x d).conn.trans hx.1.conn, by show (x.dOpen.set d true).length = _; simp [hx.1.dOpen], hx.1.cbOpen, hx.1.secConn⟩, hx.2⟩)
    (by
      intro x d hx hd
      split_ifs
      · exact OpensG.refl C x
      · refine opensG_disconOpen w2 x hx.1 d hd.1 (Or.inr (Or.inl ⟨c, ?_, hx.2⟩))
        rw [hd.2]; exact hcb)
    (C.lines.getD l0 default).discons (fun d hd => w.line_discons l0 hl0 d hd) s1 ⟨hs1z, hopen1⟩
  obtain ⟨o12, hs2z, hopen2⟩ := fold
  set s2 := (C.lines.getD l0 default).discons.foldl (fun s d => if gb s.dOpen d then s else disconOpen C s d) s1 with hs2
  have o23 : OpensG C s2 (lineDisconnect s2 l0) := by
    refine ⟨opens_lineDisconnect s2 l0, rfl, fun _ h => h, ?_, fun _ _ h => Or.inl h⟩
    intro l _ hx
    by_cases hl : l0 = l
    · right; subst hl
      exact Or.inr (Or.inl ⟨c, hcb, hopen2⟩)
    · left
      change gb (s2.conn.set l0 false) l = false at hx
      rw [gb_set_ne _ _ _ _ hl] at hx; exact hx
  exact OpensG.trans o01 (OpensG.trans o12 o23)

theorem opensG_swOpen {C : Cfg} (w : WF C) (w2 : WF2 C) (n : Nat) (hn : n < C.nets.length) (k : Nat) (hk : k ∈ (netOf C n).secs)
    (s : St) (hs : GSz C s) (hsc : gb s.secConn k = false) (sw : Sw) (hsw : sw ∈ (secOf C k).switches) :
    OpensG C s (swOpen C s sw) ∧ GSz C (swOpen C s sw) := by
  cases sw with
  | discon d =>
    have hd := (w.sec_discon n hn k hk d hsw).1
    have o := opensG_disconOpen w2 s hs d hd (Or.inr (Or.inr ⟨k, w.sec_lt n hn k hk, hsw, hsc⟩))
    exact ⟨o, hs.of_opensG o (sameLen_disconOpen C s d)⟩
  | breaker c =>
    have hc := (w.sec_breaker n hn k hk c hsw).1
    subst hc
    exact opensG_cbOpenOp w w2 s hs _ (w.cb_lt n hn)

theorem opensG_secDisconnect {C : Cfg} (w : WF C) (w2 : WF2 C) (n : Nat) (hn : n < C.nets.length) (k : Nat) (hk : k ∈ (netOf C n).secs)
    (s : St) (hs : GSz C s) : OpensG C s (secDisconnect C s k) ∧ GSz C (secDisconnect C s k) := by
  have hsl : SameLen s (secDisconnect C s k) := sameLen_secDisconnect C s k
  suffices h : OpensG C s (secDisconnect C s k) from ⟨h, hs.of_opensG h hsl⟩
  unfold secDisconnect
  simp only
  set s1 : St := { s with secConn := s.secConn.set k false } with hs1
  have hk1 : gb s1.secConn k = false := gb_set_self _ _ _ (by rw [hs.secConn]; exact w.sec_lt n hn k hk)
  have hs1z : GSz C s1 := ⟨hs.conn, hs.dOpen, hs.cbOpen, by simp [hs1, hs.secConn]⟩
  have o01 : OpensG C s s1 := by
    refine ⟨⟨fun _ h => h, fun _ h => h, fun _ h => h⟩, rfl, ?_, fun _ _ h => Or.inl h, fun _ _ h => Or.inl h⟩
    intro j hj
    show gb (s.secConn.set k false) j = false
    rw [gb_set]; split_ifs
    · rfl
    · exact hj
  obtain ⟨o12, hs2z, hk2⟩ := opensG_foldl (C := C) lineDisconnect (fun x => GSz C x ∧ gb x.secConn k = false)
    (fun l => (lineOf C l).sec = k)
    (fun x l hx _ => ⟨⟨(sameLen_lineDisconnect x l).conn.trans hx.1.conn, hx.1.dOpen, hx.1.cbOpen, hx.1.secConn⟩, hx.2⟩)
    (by
      intro x l hx hl
      refine ⟨opens_lineDisconnect x l, rfl, fun _ h => h, ?_, fun _ _ h => Or.inl h⟩
      intro l' _ hx'
      by_cases hll : l = l'
      · right; subst hll; left; rw [hl]; exact hx.2
      · left
        change gb (x.conn.set l false) l' = false at hx'
        rw [gb_set_ne _ _ _ _ hll] at hx'; exact hx')
    (C.secs.getD k default).lines (fun l hl => (w.sec_lines n hn k hk l hl).2.1) s1 ⟨hs1z, hk1⟩
  obtain ⟨o23, _⟩ := opensG_foldl (C := C) (swOpen C) (fun x => GSz C x ∧ gb x.secConn k = false)
    (fun sw => sw ∈ (secOf C k).switches)
    (fun x sw hx hsw => by
      obtain ⟨o, z⟩ := opensG_swOpen w w2 n hn k hk x hx.1 hx.2 sw hsw
      exact ⟨z, o.secDown k hx.2⟩)
    (fun x sw hx hsw => (opensG_swOpen w w2 n hn k hk x hx.1 hx.2 sw hsw).1)
    (C.secs.getD k default).switches (fun _ h => h) _ ⟨hs2z, hk2⟩
  exact OpensG.trans o01 (OpensG.trans o12 o23)

theorem opensG_discAll {C : Cfg} (w : WF C) (w2 : WF2 C) (n : Nat) (hn : n < C.nets.length) (ks : List Nat) (hks : ∀ k ∈ ks, k ∈ (netOf C n).secs)
    (s : St) (hs : GSz C s) : OpensG C s (ks.foldl (secDisconnect C) s) ∧ GSz C (ks.foldl (secDisconnect C) s) :=
  opensG_foldl (C := C) (secDisconnect C) (GSz C) (fun k => k ∈ (netOf C n).secs)
    (fun x k hx hk => (opensG_secDisconnect w w2 n hn k hk x hx).2)
    (fun x k hx hk => (opensG_secDisconnect w w2 n hn k hk x hx).1) ks hks s hs

theorem G.gsz {C : Cfg} {s : St} (g : G C s) (z : Sz C s) : GSz C s := ⟨z.conn, g.dlen, z.cbOpen, z.secConn⟩

theorem G.afterFail {C : Cfg} {s : St} (w : WF C) (w2 : WF2 C) (z : Sz C s) (g : G C s) (l : Nat) (hl : l < C.lines.length) (rep : ℚ) :
    G C (lineFail C s l rep) := by
  unfold Relsad.Control.lineFail
  simp only
  set s1 : St := { s with failed := s.failed.set l true, netFailed := s.netFailed.set (C.lines.getD l default).net true, rem := s.rem.set l rep } with hs1
  have g1 : G C s1 := g.congr rfl rfl rfl rfl
  have z1 : GSz C s1 := ⟨z.conn, g.dlen, z.cbOpen, z.secConn⟩
  split_ifs
  · set n := (C.lines.getD l default).net with hn
    have hnlt : n < C.nets.length := w.line_net l hl
    obtain ⟨o1, z2⟩ := opensG_cbOpenOp w w2 s1 z1 (netOf C n).cb (w.cb_lt n hnlt)
    obtain ⟨o2, _⟩ := opensG_foldl (C := C) (fun s m => cbOpenOp C s (C.nets.getD m default).cb) (GSz C) (fun m => m < C.nets.length)
      (fun x m hx hm => (opensG_cbOpenOp w w2 x hx (netOf C m).cb (w.cb_lt m hm)).2)
      (fun x m hx hm => (opensG_cbOpenOp w w2 x hx (netOf C m).cb (w.cb_lt m hm)).1)
      (C.nets.getD n default).children (fun m hm => (w.children n hnlt m hm).1) _ z2
    exact g1.of_opensG (OpensG.trans o1 o2)
  · exact g1

/-! ### closing operations -/

/-- a closing step: lines only come back, and a disconnector that was closed has put its line back -/
structure Closes (C : Cfg) (s s' : St) : Prop where
  connUp : ∀ l, gb s.conn l = true → gb s'.conn l = true
  dDown : ∀ d, gb s'.dOpen d = true → gb s.dOpen d = true
  dlen : s'.dOpen.length = s.dOpen.length
  clen : s'.conn.length = s.conn.length
  closed : ∀ d, gb s.dOpen d = true → gb s'.dOpen d = false → C.disconLine.getD d 0 < s.conn.length →
    gb s'.conn (C.disconLine.getD d 0) = true

theorem Closes.refl (C : Cfg) (s : St) : Closes C s s :=
  ⟨fun _ h => h, fun _ h => h, rfl, rfl, fun _ h h' _ => by rw [h] at h'; exact absurd h' (by simp)⟩

theorem Closes.trans {C : Cfg} {a b c : St} (h1 : Closes C a b) (h2 : Closes C b c) : Closes C a c := by
  refine ⟨fun l h => h2.connUp l (h1.connUp l h), fun d h => h1.dDown d (h2.dDown d h), h2.dlen.trans h1.dlen, h2.clen.trans h1.clen, ?_⟩
  intro d ha hc hlt
  cases hb : gb b.dOpen d
  · exact h2.connUp _ (h1.closed d ha hb hlt)
  · exact h2.closed d hb hc (by rw [h1.clen]; exact hlt)

theorem closes_lineConnect (C : Cfg) (s : St) (l : Nat) : Closes C s (lineConnect s l) := by
  refine ⟨?_, fun _ h => h, rfl, by simp [lineConnect], fun _ h h' _ => by rw [show (lineConnect s l).dOpen = s.dOpen from rfl, h] at h'; exact absurd h' (by simp)⟩
  intro i h
  show gb (s.conn.set l true) i = true
  rw [gb_set]; split_ifs
  · rfl
  · exact h

theorem closes_disconClose (C : Cfg) (s : St) (d : Nat) : Closes C s (disconClose C s d) := by
  refine ⟨?_, ?_, by simp [disconClose, lineConnect], by simp [disconClose, lineConnect], ?_⟩
  · intro i h
    show gb (s.conn.set (C.disconLine.getD d 0) true) i = true
    rw [gb_set]; split_ifs
    · rfl
    · exact h
  · intro e he
    change gb (s.dOpen.set d false) e = true at he
    exact (gb_set_true_imp _ _ _ he).1
  · intro e he he' hlt
    by_cases hde : d = e
    · subst hde
      show gb (s.conn.set (C.disconLine.getD d 0) true) (C.disconLine.getD d 0) = true
      exact gb_set_self _ _ _ hlt
    · change gb (s.dOpen.set d false) e = false at he'
      rw [gb_set_ne _ _ _ _ hde, he] at he'; exact absurd he' (by simp)

theorem closes_foldl {C : Cfg} {α : Type} (f : St → α → St) (hf : ∀ s a, Closes C s (f s a)) (l : List α) (s : St) :
    Closes C s (l.foldl f s) := by
  induction l generalizing s with
  | nil => exact Closes.refl C s
  | cons a as ih => exact Closes.trans (hf s a) (ih (f s a))

/-- the line fold of `Section.connect_manually` -/
def lineStep (C : Cfg) (s : St) (l : Nat) : St :=
  match (C.lines.getD l default).cb with
  | some c => if gb s.cbOpen c then s else lineConnect s l
  | none => lineConnect s l

theorem lineStep_spec (C : Cfg) (s : St) (l : Nat) :
    Closes C s (lineStep C s l) ∧ (lineStep C s l).cbOpen = s.cbOpen ∧
    (BrOk C s.cbOpen l → l < s.conn.length → gb (lineStep C s l).conn l = true) := by
  unfold lineStep
  cases hcb : (C.lines.getD l default).cb with
  | none =>
    refine ⟨closes_lineConnect C s l, rfl, fun _ hlt => ?_⟩
    show gb (s.conn.set l true) l = true
    exact gb_set_self _ _ _ hlt
  | some c =>
    simp only
    split_ifs with ho
    · refine ⟨Closes.refl C s, rfl, fun hok _ => ?_⟩
      have := hok c (by unfold lineOf; exact hcb)
      rw [ho] at this; exact absurd this (by simp)
    · refine ⟨closes_lineConnect C s l, rfl, fun _ hlt => ?_⟩
      show gb (s.conn.set l true) l = true
      exact gb_set_self _ _ _ hlt

theorem lineFold_spec (C : Cfg) (ls : List Nat) (x : St) :
    Closes C x (ls.foldl (lineStep C) x) ∧ (ls.foldl (lineStep C) x).cbOpen = x.cbOpen ∧
    (∀ l ∈ ls, BrOk C x.cbOpen l → l < x.conn.length → gb (ls.foldl (lineStep C) x).conn l = true) := by
  induction ls generalizing x with
  | nil => exact ⟨Closes.refl C x, rfl, fun _ h => by cases h⟩
  | cons a as ih =>
    simp only [List.foldl_cons]
    obtain ⟨e1, e2, e3⟩ := lineStep_spec C x a
    obtain ⟨f1, f2, f3⟩ := ih (lineStep C x a)
    refine ⟨Closes.trans e1 f1, f2.trans e2, ?_⟩
    intro l hl hok hlt
    by_cases hla : l = a
    · subst hla; exact f1.connUp _ (e3 hok hlt)
    · rcases List.mem_cons.mp hl with h | h
      · exact absurd h hla
      · exact f3 l h (by rw [e2]; exact hok) (by rw [e1.clen]; exact hlt)

theorem swStep_closes (C : Cfg) (s : St) (sw : Sw) : Closes C s (swStep C s sw) := by
  cases sw with
  | breaker c => exact Closes.refl C s
  | discon d =>
    unfold swStep
    simp only
    split_ifs
    · exact Closes.refl C s
    · cases (C.lines.getD (C.disconLine.getD d 0) default).cb with
      | none => exact closes_disconClose C s d
      | some c =>
        simp only
        split_ifs
        · exact Closes.refl C s
        · exact closes_disconClose C s d

theorem secConnectManually_eq2 (C : Cfg) (s : St) (k : Nat) :
    secConnectManually C s k =
      (C.secs.getD k default).switches.foldl (swStep C)
        ((C.secs.getD k default).lines.foldl (lineStep C) { s with secConn := s.secConn.set k true }) := rfl

theorem secConnectManually_closes (C : Cfg) (s : St) (k : Nat) :
    Closes C s (secConnectManually C s k) ∧
    (∀ l ∈ (secOf C k).lines, BrOk C s.cbOpen l → l < s.conn.length → gb (secConnectManually C s k).conn l = true) := by
  rw [secConnectManually_eq2]
  obtain ⟨a1, _, a3⟩ := lineFold_spec C (C.secs.getD k default).lines { s with secConn := s.secConn.set k true }
  have b := closes_foldl (C := C) (swStep C) (swStep_closes C) (C.secs.getD k default).switches
    ((C.secs.getD k default).lines.foldl (lineStep C) { s with secConn := s.secConn.set k true })
  have a1' : Closes C s ((C.secs.getD k default).lines.foldl (lineStep C) { s with secConn := s.secConn.set k true }) :=
    ⟨a1.connUp, a1.dDown, a1.dlen, a1.clen, a1.closed⟩
  exact ⟨Closes.trans a1' b, fun l hl hok hlt => b.connUp _ (a3 l hl hok hlt)⟩

theorem brOk_or_open (C : Cfg) (cb : List Bool) (l : Nat) : BrOk C cb l ∨ ∃ c, (lineOf C l).cb = some c ∧ gb cb c = true := by
  cases hcb : (lineOf C l).cb with
  | none => exact Or.inl (fun c hc => by rw [hcb] at hc; cases hc)
  | some c =>
    cases ho : gb cb c
    · left; intro c' hc'; rw [hcb] at hc'
      have : c' = c := by injection hc' with e; exact e.symm
      rw [this]; exact ho
    · exact Or.inr ⟨c, rfl, ho⟩

/-- reconnecting a section of network `n` keeps every outage and every open switch explained -/
theorem G.reconnect {C : Cfg} {s : St} (w : WF C) (w2 : WF2 C) (z : Sz C s) (g : G C s) (n : Nat) (hn : n < C.nets.length)
    (k : Nat) (hk : k ∈ (netOf C n).secs) : G C (secConnectManually C s k) := by
  obtain ⟨c1, c2, _, c4⟩ := secConnectManually_sw C s k
  obtain ⟨cl, own⟩ := secConnectManually_closes C s k
  have hsc : (secConnectManually C s k).secConn = s.secConn.set k true := (secConnectManually_conn C s k).secConn
  have hklt : k < s.secConn.length := by rw [z.secConn]; exact w.sec_lt n hn k hk
  have hksec : k < C.secs.length := w.sec_lt n hn k hk
  have secOther : ∀ j, j ≠ k → gb (secConnectManually C s k).secConn j = gb s.secConn j := by
    intro j hj; rw [hsc]; exact gb_set_ne _ _ _ _ (fun e => hj e.symm)
  have secFalse : ∀ j, gb s.secConn j = false → j ≠ k → gb (secConnectManually C s k).secConn j = false := by
    intro j hj hjk; rw [secOther j hjk]; exact hj
  have brSame : ∀ l, BrOpen C s l → BrOpen C (secConnectManually C s k) l := by
    intro l ⟨c, hc, ho⟩; exact ⟨c, hc, by rw [c1]; exact ho⟩
  refine ⟨cl.dlen.trans g.dlen, ?_, ?_⟩
  · intro l hl hx
    have hs0 : gb s.conn l = false := by
      cases h0 : gb s.conn l
      · rfl
      · rw [cl.connUp l h0] at hx; exact absurd hx (by simp)
    rcases g.line l hl hs0 with h1 | h1 | ⟨d, hd, hdo⟩
    · by_cases hlk : (lineOf C l).sec = k
      · rcases brOk_or_open C s.cbOpen l with hok | ⟨c, hc, ho⟩
        · have hin : l ∈ (secOf C k).lines := hlk ▸ w.line_mem_sec l hl
          rw [own l hin hok (by rw [z.conn]; exact hl)] at hx; exact absurd hx (by simp)
        · exact Or.inr (Or.inl (brSame l ⟨c, hc, ho⟩))
      · exact Or.inl (secFalse _ h1 hlk)
    · exact Or.inr (Or.inl (brSame l h1))
    · cases hr : gb (secConnectManually C s k).dOpen d
      · have hdl := (w.line_discons l hl d hd).2
        have := cl.closed d hdo hr (by rw [hdl, z.conn]; exact hl)
        rw [hdl, hx] at this; exact absurd this (by simp)
      · exact Or.inr (Or.inr ⟨d, hd, hr⟩)
  · intro d hd hx
    have hs0 := cl.dDown d hx
    have hllt : C.disconLine.getD d 0 < C.lines.length := w.discon_lt d hd
    have hdin : d ∈ (lineOf C (C.disconLine.getD d 0)).discons := w2.disc_complete d hd
    -- a disconnector listed by `k` that is still open: its own section is out, or a breaker is open on its line
    have listed : Sw.discon d ∈ (secOf C k).switches → Just2 C (secConnectManually C s k) d := by
      intro hsw
      cases hsec : gb (s.secConn.set k true) (lineOf C (C.disconLine.getD d 0)).sec
      · left; rw [hsc]; exact hsec
      · rcases brOk_or_open C s.cbOpen (C.disconLine.getD d 0) with hok | ⟨c, hc, ho⟩
        · rw [c4 d hsw hsec hok] at hx; exact absurd hx (by simp)
        · exact Or.inr (Or.inl (brSame _ ⟨c, hc, ho⟩))
    rcases g.discon d hd hs0 with h1 | h1 | ⟨j, hj, hsw, hjc⟩
    · by_cases hlk : (lineOf C (C.disconLine.getD d 0)).sec = k
      · exact listed (hlk ▸ w2.own_sw _ hllt d hdin)
      · exact Or.inl (secFalse _ h1 hlk)
    · exact Or.inr (Or.inl (brSame _ h1))
    · by_cases hjk : j = k
      · subst hjk; exact listed hsw
      · exact Or.inr (Or.inr ⟨j, hj, hsw, secFalse j hjc hjk⟩)

theorem cbCloseOp_closes (C : Cfg) (s : St) (c : Nat) :
    Closes C s (cbCloseOp C s c) ∧ (C.cbLine.getD c 0 < s.conn.length → gb (cbCloseOp C s c).conn (C.cbLine.getD c 0) = true) := by
  unfold cbCloseOp
  simp only
  set s1 : St := { s with cbOpen := s.cbOpen.set c false } with hs1
  have c01 : Closes C s s1 := ⟨fun _ h => h, fun _ h => h, rfl, rfl, fun _ h h' _ => by rw [show s1.dOpen = s.dOpen from rfl, h] at h'; exact absurd h' (by simp)⟩
  have c12 := closes_foldl (C := C) (fun s d => if gb s.dOpen d && gb s.secConn (C.lines.getD (C.cbLine.getD c 0) default).sec then disconClose C s d else s)
    (fun x d => by
      show Closes C x (if gb x.dOpen d && gb x.secConn (C.lines.getD (C.cbLine.getD c 0) default).sec then disconClose C x d else x)
      split_ifs
      · exact closes_disconClose C x d
      · exact Closes.refl C x)
    (C.lines.getD (C.cbLine.getD c 0) default).discons s1
  have c23 := closes_lineConnect C ((C.lines.getD (C.cbLine.getD c 0) default).discons.foldl
    (fun s d => if gb s.dOpen d && gb s.secConn (C.lines.getD (C.cbLine.getD c 0) default).sec then disconClose C s d else s) s1) (C.cbLine.getD c 0)
  refine ⟨Closes.trans c01 (Closes.trans c12 c23), fun hlt => ?_⟩
  show gb (List.set _ (C.cbLine.getD c 0) true) (C.cbLine.getD c 0) = true
  exact gb_set_self _ _ _ (by rw [c12.clen]; exact hlt)

/-- reclosing the breaker of network `n` while the section of its line is in service -/
theorem G.closeBreaker {C : Cfg} {s : St} (w : WF C) (w2 : WF2 C) (z : Sz C s) (g : G C s) (n : Nat) (hn : n < C.nets.length) :
    G C (cbCloseOp C s (netOf C n).cb) := by
  obtain ⟨c1, _, _, c4⟩ := cbCloseOp_sw C s (netOf C n).cb
  obtain ⟨cl, back⟩ := cbCloseOp_closes C s (netOf C n).cb
  have hl0 : C.cbLine.getD (netOf C n).cb 0 = (netOf C n).connLine := w.cb_line n hn
  have hclt : (netOf C n).cb < C.cbLine.length := w.cb_lt n hn
  have hl0lt : (netOf C n).connLine < C.lines.length := w.conn_lt n hn
  rw [hl0] at c4 back
  have hsec : (cbCloseOp C s (netOf C n).cb).secConn = s.secConn := (cbCloseOp_conn w s n hn).secConn
  have hback : gb (cbCloseOp C s (netOf C n).cb).conn (netOf C n).connLine = true := back (by rw [z.conn]; exact hl0lt)
  -- an open breaker other than the one reclosed stays open; the reclosed one sits on the connecting line only
  have brKeep : ∀ l, l < C.lines.length → BrOpen C s l → l ≠ (netOf C n).connLine → BrOpen C (cbCloseOp C s (netOf C n).cb) l := by
    intro l hl ⟨c, hc, ho⟩ hne
    refine ⟨c, hc, ?_⟩
    rw [c1]
    have hcc : (netOf C n).cb ≠ c := by
      intro e
      have := (w2.line_cb l hl c hc).2
      rw [← e, hl0] at this; exact hne this.symm
    rw [gb_set_ne _ _ _ _ hcc]; exact ho
  refine ⟨cl.dlen.trans g.dlen, ?_, ?_⟩
  · intro l hl hx
    have hne : l ≠ (netOf C n).connLine := by
      intro e; rw [e, hback] at hx; exact absurd hx (by simp)
    have hs0 : gb s.conn l = false := by
      cases h0 : gb s.conn l
      · rfl
      · rw [cl.connUp l h0] at hx; exact absurd hx (by simp)
    rcases g.line l hl hs0 with h1 | h1 | ⟨d, hd, hdo⟩
    · exact Or.inl (by rw [hsec]; exact h1)
    · exact Or.inr (Or.inl (brKeep l hl h1 hne))
    · cases hr : gb (cbCloseOp C s (netOf C n).cb).dOpen d
      · have hdl := (w.line_discons l hl d hd).2
        have := cl.closed d hdo hr (by rw [hdl, z.conn]; exact hl)
        rw [hdl, hx] at this; exact absurd this (by simp)
      · exact Or.inr (Or.inr ⟨d, hd, hr⟩)
  · intro d hd hx
    have hs0 := cl.dDown d hx
    have hllt : C.disconLine.getD d 0 < C.lines.length := w.discon_lt d hd
    by_cases hne : C.disconLine.getD d 0 = (netOf C n).connLine
    · -- a disconnector on the breaker's own line that is still open: the line's section is out of service
      left
      rw [hsec, hne]
      cases hsc : gb s.secConn (lineOf C (netOf C n).connLine).sec
      · rfl
      · have hdin : d ∈ (lineOf C (netOf C n).connLine).discons := hne ▸ w2.disc_complete d hd
        rw [c4 hsc d hdin] at hx; exact absurd hx (by simp)
    · rcases g.discon d hd hs0 with h1 | h1 | ⟨j, hj, hsw, hjc⟩
      · exact Or.inl (by rw [hsec]; exact h1)
      · exact Or.inr (Or.inl (brKeep _ hllt h1 hne))
      · exact Or.inr (Or.inr ⟨j, hj, hsw, by rw [hsec]; exact hjc⟩)

/-! ### the controller's checks -/

theorem G.afterFlag {C : Cfg} {s : St} (g : G C s) (n k : Nat) : G C (flagStep C n s k) := by
  obtain ⟨e1, e2, e3⟩ := flagStep_sw C n s k
  have hsd : ∀ j, gb s.secConn j = false → gb (flagStep C n s k).secConn j = false := by
    intro j hj
    unfold Relsad.Control.flagStep
    simp only
    split_ifs
    · rw [(remFold_fields _ _ _).2.2.2.1]
      show gb (s.secConn.set k false) j = false
      rw [gb_set]; split_ifs
      · rfl
      · exact hj
    · exact hj
  exact g.of_opensG ⟨⟨fun i h => by rw [e3] at h; exact h, fun d h => by rw [e1]; exact h, fun c h => by rw [e2]; exact h⟩, by rw [e1], hsd,
    fun l _ h => Or.inl (by rw [e3] at h; exact h), fun d _ h => Or.inl (by rw [e1] at h; exact h)⟩

theorem G.afterFlagA {C : Cfg} {s : St} (g : G C s) (n k : Nat) (cm : Comm) : G C (flagStepA C n cm s k) := by
  obtain ⟨e1, e2, e3⟩ := flagStepA_sw C n cm s k
  have hsd : ∀ j, gb s.secConn j = false → gb (flagStepA C n cm s k).secConn j = false := by
    intro j hj
    unfold Relsad.Control.flagStepA
    simp only
    by_cases hf : anyFailed s (C.secs.getD k default).lines = true
    · rw [if_pos hf, (remFold_fields _ _ _).2.2.2.1]
      show gb (s.secConn.set k false) j = false
      rw [gb_set]; split_ifs
      · rfl
      · exact hj
    · rw [if_neg hf]; exact hj
  exact g.of_opensG ⟨⟨fun i h => by rw [e3] at h; exact h, fun d h => by rw [e1]; exact h, fun c h => by rw [e2]; exact h⟩, by rw [e1], hsd,
    fun l _ h => Or.inl (by rw [e3] at h; exact h), fun d _ h => Or.inl (by rw [e1] at h; exact h)⟩

theorem g_foldl {C : Cfg} {α : Type} (f : St → α → St) (hf : ∀ s a, G C s → G C (f s a)) (l : List α) (s : St) (g : G C s) :
    G C (l.foldl f s) := by
  induction l generalizing s with
  | nil => exact g
  | cons a as ih => exact ih (f s a) (hf s a g)

theorem G.recoAll {C : Cfg} (w : WF C) (w2 : WF2 C) (n : Nat) (hn : n < C.nets.length) (ks : List Nat) (s : St) (h : Inv C s)
    (hA : AllClear C s n) (g : G C s) (hks : ∀ k ∈ ks, k ∈ (netOf C n).secs) : G C (ks.foldl (recoStep C n) s) := by
  induction ks generalizing s with
  | nil => exact g
  | cons a as ih =>
    simp only [List.foldl_cons]
    have ha := hks a List.mem_cons_self
    obtain ⟨i1, a1, _, _⟩ := recoStep_spec w n hn s h hA a ha
    have g1 : G C (recoStep C n s a) := by
      unfold recoStep
      simp only
      split_ifs
      · exact g
      · exact (g.reconnect w w2 h.sz n hn a ha).congr rfl rfl rfl rfl
    exact ih (recoStep C n s a) i1 a1 g1 (fun k hk => hks k (List.mem_cons_of_mem _ hk))

theorem G.checkG {C : Cfg} (w : WF C) (w2 : WF2 C) (n : Nat) (hn : n < C.nets.length) (f : St → Nat → St)
    (hspec : ∀ (s : St) (k : Nat), Inv C s → k ∈ (netOf C n).secs →
      Inv C (f s k) ∧ (f s k).failed = s.failed ∧ (f s k).conn = s.conn ∧ (f s k).cbOpen = s.cbOpen ∧
      (f s k).secConn = (if anyFailed s (secOf C k).lines then s.secConn.set k false else s.secConn))
    (hG : ∀ s k, G C s → G C (f s k))
    (s : St) (h : Inv C s) (g : G C s) :
    G C (((netOf C n).secs.filter (fun k => !gb s.secConn k)).foldl (recoStep C n)
            (((netOf C n).secs.filter (fun k => gb s.secConn k)).foldl f s)) := by
  have hc : ∀ k ∈ (netOf C n).secs.filter (fun k => gb s.secConn k), k ∈ (netOf C n).secs := fun k hk => (List.mem_filter.mp hk).1
  have hd : ∀ k ∈ (netOf C n).secs.filter (fun k => !gb s.secConn k), k ∈ (netOf C n).secs := fun k hk => (List.mem_filter.mp hk).1
  have fa := flagAllG w n hn f hspec _ s h hc
  have gm := g_foldl f hG ((netOf C n).secs.filter (fun k => gb s.secConn k)) s g
  set mid := ((netOf C n).secs.filter (fun k => gb s.secConn k)).foldl f s with hmid
  have hA : AllClear C mid n := by
    intro k hk hsc l hl
    rw [fa.failed]
    exact fa.clear k (List.mem_filter.mpr ⟨hk, fa.secMono k hsc⟩) hsc l hl
  exact G.recoAll w w2 n hn _ mid fa.inv hA gm hd

theorem G.checkLines {C : Cfg} {s : St} (w : WF C) (w2 : WF2 C) (h : Inv C s) (g : G C s) (n : Nat) (hn : n < C.nets.length) :
    G C (checkLinesManually C s n) := by
  rw [checkLinesManually_eq]
  exact G.checkG w w2 n hn (flagStep C n) (fun s' k hs' hk => flagStep_spec w n hn s' hs' k hk) (fun s' k g' => g'.afterFlag n k) s h g

theorem G.checkSens {C : Cfg} {s : St} (w : WF C) (w2 : WF2 C) (h : Inv C s) (g : G C s) (n : Nat) (hn : n < C.nets.length) (cm : Comm) :
    G C (checkSensors C s n cm) := by
  rw [checkSensors_eq]
  exact G.checkG w w2 n hn (flagStepA C n cm) (fun s' k hs' hk => flagStepA_spec w n hn cm s' hs' k hk) (fun s' k g' => g'.afterFlagA n k cm) s h g

theorem G.checkBreaker {C : Cfg} {s : St} (w : WF C) (w2 : WF2 C) (h : Inv C s) (g : G C s) (n : Nat) (hn : n < C.nets.length) :
    G C (checkBreakerManually C s n) := by
  unfold checkBreakerManually
  simp only
  have d := discAll w n hn (s.failedSecs.getD n []) s h (fun k hk => hk)
  obtain ⟨o, _⟩ := opensG_discAll w w2 n hn (s.failedSecs.getD n []) (fun k hk => h.fs n hn k hk) s (g.gsz h.sz)
  have g1 : G C ((s.failedSecs.getD n []).foldl (secDisconnect C) s) := g.of_opensG o
  split_ifs with _ _ _ h4
  · exact g
  · exact g
  · set fs := s.failedSecs.getD n [] with hfs
    set s1 := fs.foldl (secDisconnect C) s with hs1
    simp only [Bool.and_eq_true, Bool.not_eq_true'] at h4
    obtain ⟨_, hnotin⟩ := h4
    have hk0 : headSec C n ∉ fs := by
      intro hin
      rw [List.any_eq_false] at hnotin
      apply hnotin _ hin
      have hm := w.line_mem_sec (netOf C n).connLine (w.conn_lt n hn)
      simpa [headSec, secOf, netOf, lineOf] using hm
    have hsc0 : gb s1.secConn (headSec C n) = true := by
      cases hx : gb s1.secConn (headSec C n)
      · have := d.inv.head n hn hx
        rw [d.failedSecs] at this; exact absurd this hk0
      · rfl
    have g2 : G C (cbCloseOp C s1 (netOf C n).cb) := g1.closeBreaker w w2 d.inv.sz n hn
    have hsz2 : Sz C (cbCloseOp C s1 (netOf C n).cb) := (sameLen_cbCloseOp C s1 _).sz d.inv.sz
    have g3 := g2.reconnect w w2 hsz2 n hn (headSec C n) (headSec_mem w n hn)
    exact g3.congr rfl rfl rfl rfl
  · exact g1
  · exact g

/-! ### loops, increments -/

structure Quad (C : Cfg) (s : St) : Prop where
  triple : Triple C s
  g : G C s

theorem Quad.loopCore {C : Cfg} (w : WF C) (w2 : WF2 C) (n : Nat) (hn : n < C.nets.length) (s1 : St) (t1 : Quad C s1) (chk : St → St)
    (hchk : ∀ s2, Inv C s2 → Inv C (chk s2) ∧ AllClear C (chk s2) n)
    (hchk2 : ∀ s2, Inv C s2 → Listed C s2 n →
      (∀ k ∈ (netOf C n).secs, gb (chk s2).secConn k = false → HasFailed C (chk s2) k) ∧ Listed C (chk s2) n ∧ (chk s2).check = s2.check ∧
      (chk s2).failed = s2.failed ∧ (∀ j, j ∉ (netOf C n).secs → gb (chk s2).secConn j = gb s2.secConn j) ∧
      (∀ m, m ≠ n → (chk s2).failedSecs.getD m [] = s2.failedSecs.getD m []))
    (hchkSA : ∀ s2, Inv C s2 → SA C s2 → SA C (chk s2))
    (hchkG : ∀ s2, Inv C s2 → G C s2 → G C (chk s2))
    (g : St → St)
    (hg : ∀ a, (g a).conn = a.conn ∧ (g a).failed = a.failed ∧ (g a).cbOpen = a.cbOpen ∧ (g a).secConn = a.secConn ∧
      (g a).failedSecs = a.failedSecs ∧ (g a).check = a.check)
    (hgd : ∀ a, (g a).dOpen = a.dOpen) :
    Quad C (checkBreakerManually C
      (if gb (if gb s1.cbOpen (C.nets.getD n default).cb && decide (gr s1.timer n ≤ 0) then { s1 with check := s1.check.set n true } else s1).check n
       then { g (chk (if gb s1.cbOpen (C.nets.getD n default).cb && decide (gr s1.timer n ≤ 0) then { s1 with check := s1.check.set n true } else s1)) with
              check := (g (chk (if gb s1.cbOpen (C.nets.getD n default).cb && decide (gr s1.timer n ≤ 0) then { s1 with check := s1.check.set n true } else s1))).check.set n false }
       else (if gb s1.cbOpen (C.nets.getD n default).cb && decide (gr s1.timer n ≤ 0) then { s1 with check := s1.check.set n true } else s1)) n) := by
  refine ⟨Triple.loopCore w w2 n hn s1 t1.triple chk hchk hchk2 hchkSA g hg hgd, ?_⟩
  set s2 : St := (if gb s1.cbOpen (C.nets.getD n default).cb && decide (gr s1.timer n ≤ 0) then { s1 with check := s1.check.set n true } else s1) with hs2
  have h2 : Inv C s2 := by
    rw [hs2]; split_ifs
    · exact t1.triple.both.inv.congr rfl rfl rfl rfl rfl (by simp)
    · exact t1.triple.both.inv
  have g2 : G C s2 := by
    rw [hs2]; split_ifs
    · exact t1.g.congr rfl rfl rfl rfl
    · exact t1.g
  by_cases hck : gb s2.check n = true
  · rw [if_pos hck]
    obtain ⟨i3, _⟩ := hchk s2 h2
    obtain ⟨g1, g2', g3, g4, g5, g6⟩ := hg (chk s2)
    have i4 : Inv C { g (chk s2) with check := (g (chk s2)).check.set n false } :=
      i3.congr g1 g2' g3 g4 g5 (by simp [g6])
    have g4' : G C { g (chk s2) with check := (g (chk s2)).check.set n false } :=
      (hchkG s2 h2 g2).congr g1 (hgd _) g3 g4
    exact g4'.checkBreaker w w2 i4 n hn
  · rw [if_neg hck]
    exact g2.checkBreaker w w2 h2 n hn

theorem Quad.distLoop {C : Cfg} {s : St} (w : WF C) (w2 : WF2 C) (t : Quad C s) (n : Nat) (hn : n < C.nets.length) (dt : ℚ) :
    Quad C (distLoop C s n dt) := by
  unfold Relsad.Control.distLoop
  simp only []
  have t1 : Quad C { s with timer := s.timer.set n (tick (gr s.timer n) dt) } :=
    ⟨⟨⟨t.triple.both.inv.congr rfl rfl rfl rfl rfl rfl, t.triple.both.inv2.congr rfl rfl rfl rfl⟩, t.triple.sa.congr rfl rfl rfl⟩, t.g.congr rfl rfl rfl rfl⟩
  exact Quad.loopCore w w2 n hn _ t1 (fun x => checkLinesManually C x n)
    (fun s2 h2 => by obtain ⟨i, a, _, _⟩ := h2.checkLines w n hn; exact ⟨i, a⟩)
    (fun s2 h2 hL => manualCheck2 w n hn s2 h2 hL)
    (fun s2 h2 sa2 => sa2.checkLines w w2 h2 n hn)
    (fun s2 h2 g2 => g2.checkLines w w2 h2 n hn)
    (fun a => (C.nets.getD n default).children.foldl (fun (s : St) m =>
        if gb s.cbOpen (C.nets.getD m default).cb then { s with pTimer := s.pTimer.set m (gr s.timer n) } else s) a)
    (fun a => childFold_fields C n _ a) (fun a => childFold_dOpen C n _ a)

theorem Quad.distLoopA {C : Cfg} {s : St} (w : WF C) (w2 : WF2 C) (t : Quad C s) (n : Nat) (hn : n < C.nets.length) (dt : ℚ) (cm : Comm) :
    Quad C (distLoopA C s n dt cm) := by
  unfold Relsad.Control.distLoopA
  simp only []
  have t1 : Quad C { s with timer := s.timer.set n (tick (gr s.timer n) dt) } :=
    ⟨⟨⟨t.triple.both.inv.congr rfl rfl rfl rfl rfl rfl, t.triple.both.inv2.congr rfl rfl rfl rfl⟩, t.triple.sa.congr rfl rfl rfl⟩, t.g.congr rfl rfl rfl rfl⟩
  exact Quad.loopCore w w2 n hn _ t1 (fun x => checkSensors C x n cm)
    (fun s2 h2 => h2.checkSens w n hn cm)
    (fun s2 h2 hL => sensorCheck2 w n hn cm s2 h2 hL)
    (fun s2 h2 sa2 => sa2.checkSens w w2 h2 n hn cm)
    (fun s2 h2 g2 => g2.checkSens w w2 h2 n hn cm)
    (fun a => (C.nets.getD n default).children.foldl (fun (s : St) m =>
        if gb s.cbOpen (C.nets.getD m default).cb then { s with pTimer := s.pTimer.set m (gr s.timer n) } else s) a)
    (fun a => childFold_fields C n _ a) (fun a => childFold_dOpen C n _ a)

theorem Quad.mgLoop {C : Cfg} {s : St} (w : WF C) (w2 : WF2 C) (t : Quad C s) (n : Nat) (hn : n < C.nets.length) (dt : ℚ) :
    Quad C (mgLoop C s n dt) := by
  unfold Relsad.Control.mgLoop
  simp only []
  have t1 : Quad C ({ s with timer := s.timer.set n (if gr s.pTimer n > tick (gr s.timer n) dt then gr s.pTimer n else tick (gr s.timer n) dt),
                             pTimer := s.pTimer.set n (tick (gr s.pTimer n) dt) } : St) :=
    ⟨⟨⟨t.triple.both.inv.congr rfl rfl rfl rfl rfl rfl, t.triple.both.inv2.congr rfl rfl rfl rfl⟩, t.triple.sa.congr rfl rfl rfl⟩, t.g.congr rfl rfl rfl rfl⟩
  exact Quad.loopCore w w2 n hn _ t1 (fun x => checkLinesManually C x n)
    (fun s2 h2 => by obtain ⟨i, a, _, _⟩ := h2.checkLines w n hn; exact ⟨i, a⟩)
    (fun s2 h2 hL => manualCheck2 w n hn s2 h2 hL)
    (fun s2 h2 sa2 => sa2.checkLines w w2 h2 n hn)
    (fun s2 h2 g2 => g2.checkLines w w2 h2 n hn)
    (fun a => a) (fun a => ⟨rfl, rfl, rfl, rfl, rfl, rfl⟩) (fun _ => rfl)

theorem Quad.mgLoopA {C : Cfg} {s : St} (w : WF C) (w2 : WF2 C) (t : Quad C s) (n : Nat) (hn : n < C.nets.length) (dt : ℚ) (cm : Comm) :
    Quad C (mgLoopA C s n dt cm) := by
  unfold Relsad.Control.mgLoopA
  simp only []
  have t1 : Quad C ({ s with timer := s.timer.set n (if gr s.pTimer n > tick (gr s.timer n) dt then gr s.pTimer n else tick (gr s.timer n) dt),
                             pTimer := s.pTimer.set n (tick (gr s.pTimer n) dt) } : St) :=
    ⟨⟨⟨t.triple.both.inv.congr rfl rfl rfl rfl rfl rfl, t.triple.both.inv2.congr rfl rfl rfl rfl⟩, t.triple.sa.congr rfl rfl rfl⟩, t.g.congr rfl rfl rfl rfl⟩
  exact Quad.loopCore w w2 n hn _ t1 (fun x => checkSensors C x n cm)
    (fun s2 h2 => h2.checkSens w n hn cm)
    (fun s2 h2 hL => sensorCheck2 w n hn cm s2 h2 hL)
    (fun s2 h2 sa2 => sa2.checkSens w w2 h2 n hn cm)
    (fun s2 h2 g2 => g2.checkSens w w2 h2 n hn cm)
    (fun a => a) (fun a => ⟨rfl, rfl, rfl, rfl, rfl, rfl⟩) (fun _ => rfl)

theorem quad_foldl {C : Cfg} {α : Type} (f : St → α → St) (l : List α) (P : α → Prop) (hP : ∀ a ∈ l, P a)
    (hf : ∀ s a, P a → Quad C s → Quad C (f s a)) (s : St) (h : Quad C s) : Quad C (l.foldl f s) := by
  induction l generalizing s with
  | nil => exact h
  | cons a as ih =>
    simp only [List.foldl_cons]
    exact ih (fun x hx => hP x (List.mem_cons_of_mem _ hx)) _ (hf s a (hP a List.mem_cons_self) h)

theorem lineUpdate_secConn (C : Cfg) (s : St) (l : Nat) (dt : ℚ) : (lineUpdate C s l dt).secConn = s.secConn := by
  have nf : ∀ x : St, (lineNotFail C x l).secConn = x.secConn := by
    intro x; unfold lineNotFail; simp only; split_ifs <;> rfl
  unfold lineUpdate
  simp only []
  split_ifs
  · exact nf _
  · rfl
  · exact nf _

theorem Quad.lineUpdate {C : Cfg} {s : St} (w : WF C) (t : Quad C s) (l : Nat) (hl : l < C.lines.length) (dt : ℚ) :
    Quad C (lineUpdate C s l dt) := by
  obtain ⟨e1, e2, e3⟩ := lineUpdate_sw C s l dt
  exact ⟨t.triple.lineUpdate w l hl dt, t.g.congr e3 e1 e2 (lineUpdate_secConn C s l dt)⟩

theorem Quad.step {C : Cfg} {s : St} (w : WF C) (w2 : WF2 C) (t : Quad C s) (dt : ℚ) : Quad C (step C s dt) := by
  unfold Relsad.Control.step
  simp only []
  refine quad_foldl _ _ (fun n => n < C.nets.length) ?_ (fun s' n hn h' => h'.mgLoop w w2 n hn dt) _ ?_
  · intro n hn; exact List.mem_range.mp (List.mem_filter.mp hn).1
  refine quad_foldl _ _ (fun n => n < C.nets.length) ?_ (fun s' n hn h' => h'.distLoop w w2 n hn dt) _ ?_
  · intro n hn; exact List.mem_range.mp (List.mem_filter.mp hn).1
  exact quad_foldl _ _ (fun l => l < C.lines.length) (fun l hl => List.mem_range.mp hl)
    (fun s' l hl h' => h'.lineUpdate w l hl dt) _ t

theorem Quad.stepA {C : Cfg} {s : St} (w : WF C) (w2 : WF2 C) (t : Quad C s) (dt : ℚ) (cm : Comm) : Quad C (stepA C s dt cm) := by
  unfold Relsad.Control.stepA
  simp only []
  refine quad_foldl _ _ (fun n => n < C.nets.length) ?_ (fun s' n hn h' => h'.mgLoopA w w2 n hn dt cm) _ ?_
  · intro n hn; exact List.mem_range.mp (List.mem_filter.mp hn).1
  refine quad_foldl _ _ (fun n => n < C.nets.length) ?_ (fun s' n hn h' => h'.distLoopA w w2 n hn dt cm) _ ?_
  · intro n hn; exact List.mem_range.mp (List.mem_filter.mp hn).1
  exact quad_foldl _ _ (fun l => l < C.lines.length) (fun l hl => List.mem_range.mp hl)
    (fun s' l hl h' => h'.lineUpdate w l hl dt) _ t

theorem Quad.init {C : Cfg} (w : WF C) : Quad C (St.init C) := ⟨Triple.init w, G.init C⟩

theorem Quad.afterFail {C : Cfg} {s : St} (w : WF C) (w2 : WF2 C) (t : Quad C s) (l : Nat) (hl : l < C.lines.length) (rep : ℚ) :
    Quad C (lineFail C s l rep) := ⟨t.triple.afterFail w l hl rep, t.g.afterFail w w2 t.triple.both.inv.sz l hl rep⟩

/-- with every section in service and every breaker closed, every line is in service and every disconnector closed -/
theorem G.all_back {C : Cfg} {s : St} (g : G C s) (hsec : ∀ k, k < C.secs.length → gb s.secConn k = true)
    (w : WF C) (hcb : ∀ c, c < C.cbLine.length → gb s.cbOpen c = false) (w2 : WF2 C) :
    (∀ d, d < C.disconLine.length → gb s.dOpen d = false) ∧ (∀ l, l < C.lines.length → gb s.conn l = true) := by
  have nobr : ∀ l, l < C.lines.length → ¬ BrOpen C s l := by
    intro l hl ⟨c, hc, ho⟩
    rw [hcb c (w2.line_cb l hl c hc).1] at ho; exact absurd ho (by simp)
  have hd : ∀ d, d < C.disconLine.length → gb s.dOpen d = false := by
    intro d hd
    cases hx : gb s.dOpen d
    · rfl
    · exfalso
      have hl := w.discon_lt d hd
      rcases g.discon d hd hx with h1 | h1 | ⟨j, hj, _, hjc⟩
      · rw [hsec _ (w.line_sec_lt _ hl)] at h1; exact absurd h1 (by simp)
      · exact nobr _ hl h1
      · rw [hsec j hj] at hjc; exact absurd hjc (by simp)
  refine ⟨hd, ?_⟩
  intro l hl
  cases hx : gb s.conn l
  · exfalso
    rcases g.line l hl hx with h1 | h1 | ⟨d, hdm, hdo⟩
    · rw [hsec _ (w.line_sec_lt l hl)] at h1; exact absurd h1 (by simp)
    · exact nobr l hl h1
    · rw [hd d (w.line_discons l hl d hdm).1] at hdo; exact absurd hdo (by simp)
  · rfl

/-! ### which breakers an operation opens -/

theorem cbOpenOp_cbOpen (C : Cfg) (s : St) (c : Nat) : (cbOpenOp C s c).cbOpen = s.cbOpen.set c true := by
  unfold cbOpenOp
  simp only [lineDisconnect]
  have key : ∀ (ds : List Nat) (x : St), (ds.foldl (fun s d => if gb s.dOpen d then s else disconOpen C s d) x).cbOpen = x.cbOpen := by
    intro ds
    induction ds with
    | nil => intro x; rfl
    | cons a as ih =>
      intro x
      simp only [List.foldl_cons]
      rw [ih]
      split_ifs <;> rfl
  rw [key]

/-- `Section.disconnect` opens no breaker that the section does not list -/
theorem secDisconnect_opens_listed (C : Cfg) (s : St) (k c : Nat) (h : gb (secDisconnect C s k).cbOpen c = true) :
    gb s.cbOpen c = true ∨ Sw.breaker c ∈ (secOf C k).switches := by
  unfold secDisconnect at h
  simp only at h
  have h1 : ((C.secs.getD k default).lines.foldl lineDisconnect { s with secConn := s.secConn.set k false }).cbOpen = s.cbOpen := by
    have : ∀ (ls : List Nat) (x : St), (ls.foldl lineDisconnect x).cbOpen = x.cbOpen := by
      intro ls
      induction ls with
      | nil => intro x; rfl
      | cons a as ih => intro x; simp only [List.foldl_cons]; rw [ih]; rfl
    rw [this]
  have key : ∀ (sws : List Sw) (x : St), gb (sws.foldl (swOpen C) x).cbOpen c = true → gb x.cbOpen c = true ∨ Sw.breaker c ∈ sws := by
    intro sws
    induction sws with
    | nil => intro x hx; exact Or.inl hx
    | cons a as ih =>
      intro x hx
      simp only [List.foldl_cons] at hx
      rcases ih _ hx with h' | h'
      · cases a with
        | discon d => exact Or.inl h'
        | breaker c' =>
          change gb (cbOpenOp C x c').cbOpen c = true at h'
          rw [cbOpenOp_cbOpen, gb_set] at h'
          split_ifs at h' with hc
          · exact Or.inr (hc.1 ▸ List.mem_cons_self)
          · exact Or.inl h'
      · exact Or.inr (List.mem_cons_of_mem _ h')
  rcases key _ _ h with h' | h'
  · rw [h1] at h'; exact Or.inl h'
  · exact Or.inr h'


end Relsad.Control
