/-
Second inductive invariant of the switching model (C06): a section is out of service only for a
reason.

  Why n   every out-of-service section of network n contains a failed line, or the controller of n
          still has its line check pending (`check n`)
  Listed n  every section listed as failed by the controller of n is out of service

Both are preserved by every operation (manual and ICT-based); after a whole increment every check
flag is down, so at every reachable state an out-of-service section contains a failed line —
equivalently: once every line is repaired, every section is back in service and no controller
lists a failed section.
-/
import Relsad.Lemmas.ControlInvL

namespace Relsad.Control

/-! ### the check flags are touched by the loops only -/

theorem check_foldl_eq {α : Type} (f : St → α → St) (hf : ∀ s a, (f s a).check = s.check) (l : List α) (s : St) :
    (l.foldl f s).check = s.check := by
  induction l generalizing s with
  | nil => rfl
  | cons a as ih => simp only [List.foldl_cons]; rw [ih, hf]

theorem check_cbOpenOp (C : Cfg) (s : St) (c : Nat) : (cbOpenOp C s c).check = s.check := by
  unfold cbOpenOp
  simp only [lineDisconnect]
  rw [check_foldl_eq]
  intro s' d; split_ifs <;> rfl

theorem check_cbCloseOp (C : Cfg) (s : St) (c : Nat) : (cbCloseOp C s c).check = s.check := by
  unfold cbCloseOp
  simp only [lineConnect]
  rw [check_foldl_eq]
  intro s' d; split_ifs <;> rfl

theorem check_swOpen (C : Cfg) (s : St) (sw : Sw) : (swOpen C s sw).check = s.check := by
  cases sw with
  | discon d => rfl
  | breaker c => exact check_cbOpenOp C s c

theorem check_secDisconnect (C : Cfg) (s : St) (k : Nat) : (secDisconnect C s k).check = s.check := by
  unfold secDisconnect
  simp only
  rw [check_foldl_eq (swOpen C) (fun s' sw => check_swOpen C s' sw), check_foldl_eq lineDisconnect (fun s' l => rfl)]

theorem check_secConnectManually (C : Cfg) (s : St) (k : Nat) : (secConnectManually C s k).check = s.check := by
  unfold secConnectManually
  simp only
  rw [check_foldl_eq, check_foldl_eq]
  · intro s' l
    cases (C.lines.getD l default).cb with
    | none => rfl
    | some c => simp only; split_ifs <;> rfl
  · intro s' sw
    cases sw with
    | breaker c => rfl
    | discon d =>
      simp only
      split_ifs
      · rfl
      · cases (C.lines.getD (C.disconLine.getD d 0) default).cb with
        | none => rfl
        | some c => simp only; split_ifs <;> rfl

theorem check_lineFail (C : Cfg) (s : St) (l : Nat) (rep : ℚ) : (lineFail C s l rep).check = s.check := by
  unfold lineFail
  simp only
  split_ifs
  · rw [check_foldl_eq _ (fun s' m => check_cbOpenOp C s' _), check_cbOpenOp]
  · rfl

/-! ### the invariant -/

def HasFailed (C : Cfg) (s : St) (k : Nat) : Prop := ∃ l ∈ (secOf C k).lines, gb s.failed l = true

def Why (C : Cfg) (s : St) (n : Nat) : Prop :=
  ∀ k ∈ (netOf C n).secs, gb s.secConn k = false → HasFailed C s k ∨ gb s.check n = true

def Listed (C : Cfg) (s : St) (n : Nat) : Prop := ∀ k ∈ s.failedSecs.getD n [], gb s.secConn k = false

structure Inv2 (C : Cfg) (s : St) : Prop where
  why : ∀ n < C.nets.length, Why C s n
  listed : ∀ n < C.nets.length, Listed C s n

theorem hasFailed_iff_anyFailed (C : Cfg) (s : St) (k : Nat) : HasFailed C s k ↔ anyFailed s (secOf C k).lines = true := by
  unfold HasFailed anyFailed
  rw [List.any_eq_true]

theorem noFailedIn_iff_not_hasFailed (C : Cfg) (s : St) (k : Nat) : NoFailedIn C s k ↔ ¬ HasFailed C s k := by
  unfold NoFailedIn HasFailed
  constructor
  · rintro h ⟨l, hl, hf⟩; rw [h l hl] at hf; exact absurd hf (by simp)
  · intro h l hl
    cases hf : gb s.failed l
    · rfl
    · exact absurd ⟨l, hl, hf⟩ h

theorem Inv2.init {C : Cfg} (w : WF C) : Inv2 C (St.init C) := by
  refine ⟨?_, ?_⟩
  · intro n hn k hk hsc
    have : gb (St.init C).secConn k = true := gb_map_true _ _ (w.sec_lt n hn k hk)
    rw [this] at hsc; exact absurd hsc (by simp)
  · intro n hn k hk
    have : (St.init C).failedSecs.getD n [] = [] := by
      simp [St.init, List.getD_eq_getElem?_getD, hn]
    rw [this] at hk; cases hk

/-- states that agree on the fields the invariant reads -/
theorem Inv2.congr {C : Cfg} {s s' : St} (h : Inv2 C s) (hf : s'.failed = s.failed) (hs : s'.secConn = s.secConn)
    (hfs : s'.failedSecs = s.failedSecs) (hk : s'.check = s.check) : Inv2 C s' := by
  refine ⟨?_, ?_⟩
  · intro n hn k hk' hsc
    rw [hs] at hsc
    rcases h.why n hn k hk' hsc with ⟨l, hl, hfl⟩ | hc
    · exact Or.inl ⟨l, hl, by rw [hf]; exact hfl⟩
    · exact Or.inr (by rw [hk]; exact hc)
  · intro n hn k hk'
    rw [hfs] at hk'; rw [hs]; exact h.listed n hn k hk'

/-! ### faults and repairs -/

theorem Inv2.afterFail {C : Cfg} {s : St} (h : Inv2 C s) (l : Nat) (rep : ℚ) : Inv2 C (lineFail C s l rep) := by
  have q : Opens s (lineFail C s l rep) := opens_lineFail C s l rep
  -- fields: secConn, failedSecs, check unchanged; failed only grows
  have hsc : (lineFail C s l rep).secConn = s.secConn := by
    unfold Relsad.Control.lineFail; simp only
    split_ifs
    · exact ((quiet_children_open C _ _).secConn).trans (quiet_cbOpenOp C _ _).secConn
    · rfl
  have hfs : (lineFail C s l rep).failedSecs = s.failedSecs := by
    unfold Relsad.Control.lineFail; simp only
    split_ifs
    · exact ((quiet_children_open C _ _).failedSecs).trans (quiet_cbOpenOp C _ _).failedSecs
    · rfl
  have hfl : ∀ i, gb s.failed i = true → gb (lineFail C s l rep).failed i = true := by
    intro i hi
    have hset : gb (s.failed.set l true) i = true := by
      rw [gb_set]; split_ifs
      · rfl
      · exact hi
    unfold Relsad.Control.lineFail; simp only
    split_ifs
    · rw [((quiet_children_open C _ _).failed).trans (quiet_cbOpenOp C _ _).failed]; exact hset
    · exact hset
  refine ⟨?_, ?_⟩
  · intro n hn k hk hsc'
    rw [hsc] at hsc'
    rcases h.why n hn k hk hsc' with ⟨i, hi, hfi⟩ | hc
    · exact Or.inl ⟨i, hi, hfl i hfi⟩
    · exact Or.inr (by rw [check_lineFail]; exact hc)
  · intro n hn k hk
    rw [hfs] at hk; rw [hsc]; exact h.listed n hn k hk

theorem Inv2.afterUpdate {C : Cfg} {s : St} (w : WF C) (hsz : Sz C s) (h : Inv2 C s) (l : Nat) (hl : l < C.lines.length) (dt : ℚ) :
    Inv2 C (lineUpdate C s l dt) := by
  unfold Relsad.Control.lineUpdate
  simp only []
  -- a witness other than `l` survives clearing `l`
  have keep : ∀ (t : St), t.failed = s.failed → ∀ k, HasFailed C s k → (∀ i ∈ (secOf C k).lines, i ≠ l ∨ gb s.failed l = false) →
      ∃ i ∈ (secOf C k).lines, gb (t.failed.set l false) i = true := by
    intro t ht k ⟨i, hi, hfi⟩ hne
    refine ⟨i, hi, ?_⟩
    rw [ht, gb_set]
    rcases hne i hi with h1 | h1
    · rw [if_neg (fun hh => h1 hh.1.symm)]; exact hfi
    · by_cases hil : l = i
      · subst hil; rw [h1] at hfi; exact absurd hfi (by simp)
      · rw [if_neg (fun hh => hil hh.1)]; exact hfi
  split_ifs with h1 h2
  · -- repaired: the check flag of the line's network goes up
    obtain ⟨c, b, sc, fs, ck, _, f⟩ := lineNotFail_fields C { s with rem := s.rem.set l (gr s.rem l - dt) } l
    refine ⟨?_, ?_⟩
    · intro n hn k hk hsc
      change gb (lineNotFail C { s with rem := s.rem.set l (gr s.rem l - dt) } l).secConn k = false at hsc
      rw [sc] at hsc
      by_cases hnl : n = (C.lines.getD l default).net
      · right
        show gb ((lineNotFail C { s with rem := s.rem.set l (gr s.rem l - dt) } l).check.set (C.lines.getD l default).net true) n = true
        rw [ck, hnl]
        exact gb_set_self _ _ _ (by rw [hsz.check]; exact w.line_net l hl)
      · rcases h.why n hn k hk hsc with hw | hc
        · left
          have hne : ∀ i ∈ (secOf C k).lines, i ≠ l ∨ gb s.failed l = false := by
            intro i hi; left
            intro e; apply hnl
            have := (w.sec_lines n hn k hk i hi).2.2
            rw [e] at this; exact this.symm
          obtain ⟨i, hi, hfi⟩ := keep { s with rem := s.rem.set l (gr s.rem l - dt) } rfl k hw hne
          exact ⟨i, hi, by
            show gb (lineNotFail C { s with rem := s.rem.set l (gr s.rem l - dt) } l).failed i = true
            rw [f]; exact hfi⟩
        · right
          show gb ((lineNotFail C { s with rem := s.rem.set l (gr s.rem l - dt) } l).check.set (C.lines.getD l default).net true) n = true
          rw [ck, gb_set_ne _ _ _ _ (fun e => hnl e.symm)]; exact hc
    · intro n hn k hk
      change k ∈ (lineNotFail C { s with rem := s.rem.set l (gr s.rem l - dt) } l).failedSecs.getD n [] at hk
      rw [fs] at hk
      show gb (lineNotFail C { s with rem := s.rem.set l (gr s.rem l - dt) } l).secConn k = false
      rw [sc]; exact h.listed n hn k hk
  · exact h.congr rfl rfl rfl rfl
  · -- a healthy line: nothing changes that the invariant reads
    obtain ⟨c, b, sc, fs, ck, _, f⟩ := lineNotFail_fields C s l
    have hfl : gb s.failed l = false := by
      cases hx : gb s.failed l
      · rfl
      · exact absurd hx h1
    refine ⟨?_, ?_⟩
    · intro n hn k hk hsc
      rw [sc] at hsc
      rcases h.why n hn k hk hsc with hw | hc
      · left
        obtain ⟨i, hi, hfi⟩ := keep s rfl k hw (fun i _ => Or.inr hfl)
        exact ⟨i, hi, by rw [f]; exact hfi⟩
      · right; rw [ck]; exact hc
    · intro n hn k hk
      rw [fs] at hk; rw [sc]; exact h.listed n hn k hk


/-! ### the line / sensor check -/

/-- second half of the specification of a flagging step (manual or ICT-based) -/
def FlagSpec2 (C : Cfg) (n : Nat) (f : St → Nat → St) : Prop :=
  ∀ (s : St) (k : Nat), (f s k).failed = s.failed ∧ (f s k).check = s.check ∧
    (f s k).secConn = (if anyFailed s (secOf C k).lines then s.secConn.set k false else s.secConn) ∧
    (f s k).failedSecs = (if anyFailed s (secOf C k).lines then s.failedSecs.set n (addUnique (s.failedSecs.getD n []) k) else s.failedSecs)

theorem flagStep_spec2 (C : Cfg) (n : Nat) : FlagSpec2 C n (flagStep C n) := by
  intro s k
  unfold flagStep
  simp only
  by_cases hf : anyFailed s (C.secs.getD k default).lines = true
  · have hf' : anyFailed s (secOf C k).lines = true := hf
    rw [if_pos hf, if_pos hf', if_pos hf']
    have rf := remFold_fields C.T (C.secs.getD k default).lines
      { s with secConn := s.secConn.set k false, failedSecs := s.failedSecs.set n (addUnique (s.failedSecs.getD n []) k), timer := s.timer.set n C.T }
    simp only at rf
    obtain ⟨_, r2, _, r4, r5, r6⟩ := rf
    exact ⟨r2, r6, r4, r5⟩
  · have hf' : ¬ anyFailed s (secOf C k).lines = true := hf
    rw [if_neg hf, if_neg hf', if_neg hf']
    exact ⟨rfl, rfl, rfl, rfl⟩

theorem flagStepA_spec2 (C : Cfg) (n : Nat) (cm : Comm) : FlagSpec2 C n (flagStepA C n cm) := by
  intro s k
  unfold flagStepA
  simp only
  by_cases hf : anyFailed s (C.secs.getD k default).lines = true
  · have hf' : anyFailed s (secOf C k).lines = true := hf
    rw [if_pos hf, if_pos hf', if_pos hf']
    have rf := remFold_fields (disconnectTime C cm k) (C.secs.getD k default).lines
      { s with secConn := s.secConn.set k false, failedSecs := s.failedSecs.set n (addUnique (s.failedSecs.getD n []) k),
               timer := s.timer.set n (gr s.timer n + ((if needSens C cm k then C.T else 0) + disconnectTime C cm k)) }
    simp only at rf
    obtain ⟨_, r2, _, r4, r5, r6⟩ := rf
    exact ⟨r2, r6, r4, r5⟩
  · have hf' : ¬ anyFailed s (secOf C k).lines = true := hf
    rw [if_neg hf, if_neg hf', if_neg hf']
    exact ⟨rfl, rfl, rfl, rfl⟩

/-- what the flagging fold does to the fields the second invariant reads -/
structure Flag2 (C : Cfg) (n : Nat) (s r : St) : Prop where
  failed : r.failed = s.failed
  check : r.check = s.check
  down : ∀ j, gb s.secConn j = false → gb r.secConn j = false
  why : ∀ j, gb r.secConn j = false → gb s.secConn j = false ∨ HasFailed C s j
  others : ∀ m, m ≠ n → r.failedSecs.getD m [] = s.failedSecs.getD m []
  listed : Listed C s n → Listed C r n
  touched : ∀ j, j ∉ (netOf C n).secs → gb r.secConn j = gb s.secConn j

theorem Flag2.refl (C : Cfg) (n : Nat) (s : St) : Flag2 C n s s :=
  ⟨rfl, rfl, fun _ h => h, fun _ h => Or.inl h, fun _ _ => rfl, fun h => h, fun _ _ => rfl⟩

theorem flag2_step {C : Cfg} (n : Nat) (f : St → Nat → St) (h2 : FlagSpec2 C n f) (s : St) (k : Nat)
    (hn : n < s.failedSecs.length) (hk : k < s.secConn.length) (hkn : k ∈ (netOf C n).secs) : Flag2 C n s (f s k) := by
  obtain ⟨e1, e2, e3, e4⟩ := h2 s k
  by_cases hf : anyFailed s (secOf C k).lines = true
  · rw [if_pos hf] at e3 e4
    refine ⟨e1, e2, ?_, ?_, ?_, ?_, ?_⟩
    rotate_left 4
    · intro j hj; rw [e3]; exact gb_set_ne _ _ _ _ (fun e => hj (e ▸ hkn))
    · intro j hj; rw [e3, gb_set]; split_ifs
      · rfl
      · exact hj
    · intro j hj
      rw [e3, gb_set] at hj
      by_cases hc : k = j ∧ k < s.secConn.length
      · right; rw [← hc.1]; exact (hasFailed_iff_anyFailed C s k).mpr hf
      · rw [if_neg hc] at hj; exact Or.inl hj
    · intro m hm; rw [e4, getD_set_ne _ _ _ _ _ (fun e => hm e.symm)]
    · intro hL j hj
      rw [e4, getD_set_self _ _ _ _ hn] at hj
      unfold addUnique at hj
      have hold : j ∈ s.failedSecs.getD n [] → gb (f s k).secConn j = false := by
        intro hin; rw [e3, gb_set]; split_ifs
        · rfl
        · exact hL j hin
      split_ifs at hj
      · exact hold hj
      · rcases List.mem_append.mp hj with h1 | h1
        · exact hold h1
        · have : j = k := by simpa using h1
          rw [this, e3]; exact gb_set_self _ _ _ hk
  · rw [if_neg hf] at e3 e4
    exact ⟨e1, e2, fun j hj => by rw [e3]; exact hj, fun j hj => by rw [e3] at hj; exact Or.inl hj,
      fun m _ => by rw [e4], fun hL j hj => by rw [e4] at hj; rw [e3]; exact hL j hj, fun j _ => by rw [e3]⟩

theorem Flag2.trans {C : Cfg} {n : Nat} {a b c : St} (h1 : Flag2 C n a b) (h2 : Flag2 C n b c) : Flag2 C n a c := by
  refine ⟨h2.failed.trans h1.failed, h2.check.trans h1.check, fun j hj => h2.down j (h1.down j hj), ?_, ?_, ?_, ?_⟩
  · intro j hj
    rcases h2.why j hj with h | ⟨l, hl, hfl⟩
    · exact h1.why j h
    · exact Or.inr ⟨l, hl, by rw [← h1.failed]; exact hfl⟩
  · intro m hm; rw [h2.others m hm, h1.others m hm]
  · intro hL; exact h2.listed (h1.listed hL)
  · intro j hj; rw [h2.touched j hj, h1.touched j hj]

theorem flag2_all {C : Cfg} (w : WF C) (n : Nat) (hn : n < C.nets.length) (f : St → Nat → St)
    (hspec : ∀ (s : St) (k : Nat), Inv C s → k ∈ (netOf C n).secs → Inv C (f s k))
    (h2 : FlagSpec2 C n f) (ks : List Nat) (s : St) (h : Inv C s) (hks : ∀ k ∈ ks, k ∈ (netOf C n).secs) :
    Flag2 C n s (ks.foldl f s) := by
  induction ks generalizing s with
  | nil => exact Flag2.refl C n s
  | cons a as ih =>
    simp only [List.foldl_cons]
    have ha := hks a List.mem_cons_self
    have s1 := flag2_step n f h2 s a (by rw [h.sz.failedSecs]; exact hn) (by rw [h.sz.secConn]; exact w.sec_lt n hn a ha) ha
    exact Flag2.trans s1 (ih (f s a) (hspec s a h ha) (fun k hk => hks k (List.mem_cons_of_mem _ hk)))

/-- what the reconnecting fold does -/
structure Reco2 (C : Cfg) (n : Nat) (ks : List Nat) (s r : St) : Prop where
  failed : r.failed = s.failed
  check : r.check = s.check
  up : ∀ j, gb s.secConn j = true → gb r.secConn j = true
  same : ∀ j, j ∉ ks → gb r.secConn j = gb s.secConn j
  why : ∀ k ∈ ks, gb r.secConn k = false → HasFailed C s k
  others : ∀ m, m ≠ n → r.failedSecs.getD m [] = s.failedSecs.getD m []
  listed : Listed C s n → Listed C r n

theorem recoStep_fields (C : Cfg) (n : Nat) (s : St) (k : Nat) :
    (recoStep C n s k).failed = s.failed ∧ (recoStep C n s k).check = s.check ∧
    (recoStep C n s k).secConn = (if anyFailed s (secOf C k).lines then s.secConn else s.secConn.set k true) ∧
    (recoStep C n s k).failedSecs = (if anyFailed s (secOf C k).lines then s.failedSecs
      else s.failedSecs.set n ((s.failedSecs.getD n []).filter (· != k))) := by
  unfold recoStep
  simp only
  by_cases hf : anyFailed s (C.secs.getD k default).lines = true
  · have hf' : anyFailed s (secOf C k).lines = true := hf
    rw [if_pos hf, if_pos hf', if_pos hf']
    exact ⟨rfl, rfl, rfl, rfl⟩
  · have hf' : ¬ anyFailed s (secOf C k).lines = true := hf
    rw [if_neg hf, if_neg hf', if_neg hf']
    have c := secConnectManually_conn C s k
    refine ⟨c.failed, check_secConnectManually C s k, c.secConn, ?_⟩
    show (secConnectManually C s k).failedSecs.set n (((secConnectManually C s k).failedSecs.getD n []).filter (· != k)) = _
    rw [c.failedSecs]

theorem reco2_all {C : Cfg} (w : WF C) (n : Nat) (hn : n < C.nets.length) (ks : List Nat) (s : St) (h : Inv C s)
    (hA : AllClear C s n) (hks : ∀ k ∈ ks, k ∈ (netOf C n).secs) : Reco2 C n ks s (ks.foldl (recoStep C n) s) := by
  induction ks generalizing s with
  | nil => exact ⟨rfl, rfl, fun _ hj => hj, fun _ _ => rfl, fun k hk => (by cases hk), fun _ _ => rfl, fun hL => hL⟩
  | cons a as ih =>
    simp only [List.foldl_cons]
    have ha := hks a List.mem_cons_self
    obtain ⟨i1, a1, _, _⟩ := recoStep_spec w n hn s h hA a ha
    obtain ⟨e1, e2, e3, e4⟩ := recoStep_fields C n s a
    have r := ih (recoStep C n s a) i1 a1 (fun k hk => hks k (List.mem_cons_of_mem _ hk))
    have halt : a < s.secConn.length := by rw [h.sz.secConn]; exact w.sec_lt n hn a ha
    have hnlt : n < s.failedSecs.length := by rw [h.sz.failedSecs]; exact hn
    have up1 : ∀ j, gb s.secConn j = true → gb (recoStep C n s a).secConn j = true := by
      intro j hj; rw [e3]; split_ifs
      · exact hj
      · rw [gb_set]; split_ifs
        · rfl
        · exact hj
    refine ⟨r.failed.trans e1, r.check.trans e2, fun j hj => r.up j (up1 j hj), ?_, ?_, ?_, ?_⟩
    · intro j hj
      have hja : a ≠ j := fun e => hj (e ▸ List.mem_cons_self)
      rw [r.same j (fun e => hj (List.mem_cons_of_mem _ e)), e3]
      split_ifs
      · rfl
      · exact gb_set_ne _ _ _ _ hja
    · intro k hk hsc
      rcases List.mem_cons.mp hk with rfl | hk'
      · by_cases hf : anyFailed s (secOf C k).lines = true
        · exact (hasFailed_iff_anyFailed C s k).mpr hf
        · exfalso
          have : gb (recoStep C n s k).secConn k = true := by
            rw [e3, if_neg hf]; exact gb_set_self _ _ _ halt
          rw [r.up k this] at hsc; exact absurd hsc (by simp)
      · obtain ⟨l, hl, hfl⟩ := r.why k hk' hsc
        exact ⟨l, hl, by rw [← e1]; exact hfl⟩
    · intro m hm
      rw [r.others m hm, e4]
      split_ifs
      · rfl
      · exact getD_set_ne _ _ _ _ _ (fun e => hm e.symm)
    · intro hL
      apply r.listed
      intro j hj
      rw [e4] at hj; rw [e3]
      by_cases hf : anyFailed s (secOf C a).lines = true
      · rw [if_pos hf] at hj ⊢; exact hL j hj
      · rw [if_neg hf] at hj ⊢
        rw [getD_set_self _ _ _ _ hnlt, List.mem_filter] at hj
        have hja : a ≠ j := by intro e; have := hj.2; simp [e] at this
        rw [gb_set_ne _ _ _ _ hja]; exact hL j hj.1


/-- **the line / sensor check, second invariant**: afterwards every out-of-service section of the network contains a failed
line (no pending check needed), listed sections are out of service, and nothing outside the network is touched -/
theorem check2 {C : Cfg} (w : WF C) (n : Nat) (hn : n < C.nets.length) (f : St → Nat → St)
    (hspec : ∀ (s : St) (k : Nat), Inv C s → k ∈ (netOf C n).secs →
      Inv C (f s k) ∧ (f s k).failed = s.failed ∧ (f s k).conn = s.conn ∧ (f s k).cbOpen = s.cbOpen ∧
      (f s k).secConn = (if anyFailed s (secOf C k).lines then s.secConn.set k false else s.secConn))
    (h2 : FlagSpec2 C n f) (s : St) (h : Inv C s) (hL : Listed C s n) :
    let r := ((netOf C n).secs.filter (fun k => !gb s.secConn k)).foldl (recoStep C n)
               (((netOf C n).secs.filter (fun k => gb s.secConn k)).foldl f s)
    (∀ k ∈ (netOf C n).secs, gb r.secConn k = false → HasFailed C r k) ∧ Listed C r n ∧ r.check = s.check ∧ r.failed = s.failed ∧
    (∀ j, j ∉ (netOf C n).secs → gb r.secConn j = gb s.secConn j) ∧ (∀ m, m ≠ n → r.failedSecs.getD m [] = s.failedSecs.getD m []) := by
  intro r
  have hc : ∀ k ∈ (netOf C n).secs.filter (fun k => gb s.secConn k), k ∈ (netOf C n).secs := fun k hk => (List.mem_filter.mp hk).1
  have hd : ∀ k ∈ (netOf C n).secs.filter (fun k => !gb s.secConn k), k ∈ (netOf C n).secs := fun k hk => (List.mem_filter.mp hk).1
  have F := flag2_all w n hn f (fun s' k hs' hk => (hspec s' k hs' hk).1) h2 _ s h hc
  have fa := flagAllG w n hn f hspec _ s h hc
  set mid := ((netOf C n).secs.filter (fun k => gb s.secConn k)).foldl f s with hmid
  have hA : AllClear C mid n := by
    intro k hk hsc l hl
    rw [fa.failed]
    exact fa.clear k (List.mem_filter.mpr ⟨hk, fa.secMono k hsc⟩) hsc l hl
  have R := reco2_all w n hn _ mid fa.inv hA hd
  refine ⟨?_, R.listed (F.listed hL), R.check.trans F.check, R.failed.trans F.failed, ?_, ?_⟩
  · intro k hk hsc
    have hfr : ∀ x, HasFailed C s x → HasFailed C r x := by
      rintro x ⟨l, hl, hfl⟩; exact ⟨l, hl, by rw [R.failed, F.failed]; exact hfl⟩
    have hmidf : gb mid.secConn k = false := by
      cases hx : gb mid.secConn k
      · rfl
      · rw [R.up k hx] at hsc; exact absurd hsc (by simp)
    cases hs : gb s.secConn k
    · -- out of service at entry: it was a candidate for reconnection and was refused
      have hkd : k ∈ (netOf C n).secs.filter (fun k => !gb s.secConn k) := List.mem_filter.mpr ⟨hk, by simp [hs]⟩
      obtain ⟨l, hl, hfl⟩ := R.why k hkd hsc
      exact ⟨l, hl, by rw [R.failed]; exact hfl⟩
    · rcases F.why k hmidf with h' | h'
      · rw [hs] at h'; exact absurd h' (by simp)
      · exact hfr k h'
  · intro j hj
    rw [R.same j (fun e => hj (hd j e)), F.touched j hj]
  · intro m hm; rw [R.others m hm, F.others m hm]


/-! ### the breaker check -/

theorem Inv2.congr' {C : Cfg} {s s' : St} (h : Inv2 C s) (hf : s'.failed = s.failed) (hs : ∀ j, gb s'.secConn j = gb s.secConn j)
    (hfs : s'.failedSecs = s.failedSecs) (hk : s'.check = s.check) : Inv2 C s' := by
  refine ⟨?_, ?_⟩
  · intro n hn k hk' hsc
    rw [hs] at hsc
    rcases h.why n hn k hk' hsc with ⟨l, hl, hfl⟩ | hc
    · exact Or.inl ⟨l, hl, by rw [hf]; exact hfl⟩
    · exact Or.inr (by rw [hk]; exact hc)
  · intro n hn k hk'
    rw [hfs] at hk'; rw [hs]; exact h.listed n hn k hk'

theorem check_discAll (C : Cfg) (ks : List Nat) (s : St) : (ks.foldl (secDisconnect C) s).check = s.check :=
  check_foldl_eq _ (fun s' k => check_secDisconnect C s' k) ks s

theorem check_checkBreakerManually (C : Cfg) (s : St) (n : Nat) : (checkBreakerManually C s n).check = s.check := by
  unfold checkBreakerManually
  simp only
  split_ifs
  · rfl
  · rfl
  · show (secConnectManually C _ _).check = s.check
    rw [check_secConnectManually, check_cbCloseOp, check_discAll]
  · exact check_discAll C _ s
  · rfl

theorem Inv2.checkBreaker {C : Cfg} {s : St} (w : WF C) (h1 : Inv C s) (h2 : Inv2 C s) (n : Nat) (hn : n < C.nets.length) :
    Inv2 C (checkBreakerManually C s n) := by
  unfold checkBreakerManually
  simp only
  -- disconnecting the listed sections does not change what the invariant reads: they are out of service already
  have d := discAll w n hn (s.failedSecs.getD n []) s h1 (fun k hk => hk)
  have hsame : ∀ j, gb ((s.failedSecs.getD n []).foldl (secDisconnect C) s).secConn j = gb s.secConn j := by
    intro j
    by_cases hj : j ∈ s.failedSecs.getD n []
    · have h0 := h2.listed n hn j hj
      cases hx : gb ((s.failedSecs.getD n []).foldl (secDisconnect C) s).secConn j
      · rw [h0]
      · rw [d.secMono j hx] at h0; exact absurd h0 (by simp)
    · exact d.secSame j hj
  have k1 : Inv2 C ((s.failedSecs.getD n []).foldl (secDisconnect C) s) :=
    h2.congr' d.failed hsame d.failedSecs (check_discAll C _ s)
  split_ifs with _ _ _ h4
  · exact h2
  · exact h2
  · -- reclosure
    set s1 := (s.failedSecs.getD n []).foldl (secDisconnect C) s with hs1
    have c2 := cbCloseOp_conn w s1 n hn
    have c3 := secConnectManually_conn C (cbCloseOp C s1 (netOf C n).cb) (headSec C n)
    set s2 := cbCloseOp C s1 (netOf C n).cb with hs2
    set s3 := secConnectManually C s2 (headSec C n) with hs3
    have hf3 : s3.failed = s1.failed := c3.failed.trans c2.failed
    have hsc3 : s3.secConn = s1.secConn.set (headSec C n) true := by rw [c3.secConn]; show s2.secConn.set _ true = _; rw [c2.secConn]
    have hfs3 : s3.failedSecs = s1.failedSecs := c3.failedSecs.trans c2.failedSecs
    have hck3 : s3.check = s1.check := by rw [check_secConnectManually, check_cbCloseOp]
    show Inv2 C { s3 with failedSecs := s3.failedSecs.set n [] }
    have hdown : ∀ j, gb s3.secConn j = false → gb s1.secConn j = false := by
      intro j hj; rw [hsc3, gb_set] at hj
      by_cases hc : headSec C n = j ∧ headSec C n < s1.secConn.length
      · rw [if_pos hc] at hj; exact absurd hj (by simp)
      · rw [if_neg hc] at hj; exact hj
    refine ⟨?_, ?_⟩
    · intro m hm k hk hsc
      rcases k1.why m hm k hk (hdown k hsc) with ⟨l, hl, hfl⟩ | hc
      · exact Or.inl ⟨l, hl, by show gb s3.failed l = true; rw [hf3]; exact hfl⟩
      · exact Or.inr (by show gb s3.check m = true; rw [hck3]; exact hc)
    · intro m hm k hk
      change k ∈ (s3.failedSecs.set n []).getD m [] at hk
      show gb s3.secConn k = false
      by_cases hmn : n = m
      · subst hmn
        rw [getD_set_self _ _ _ _ (by rw [hfs3, d.failedSecs, h1.sz.failedSecs]; exact hn)] at hk; cases hk
      · rw [getD_set_ne _ _ _ _ _ hmn, hfs3] at hk
        have h0 := k1.listed m hm k hk
        have hkm : k ∈ (netOf C m).secs := d.inv.fs m hm k hk
        have hne : headSec C n ≠ k := by
          intro e
          exact hmn (w.secs_disj m n hm hn k hkm (e ▸ headSec_mem w n hn))
        rw [hsc3, gb_set_ne _ _ _ _ hne]; exact h0
  · exact k1
  · exact h2

/-! ### control loops -/

structure Both (C : Cfg) (s : St) : Prop where
  inv : Inv C s
  inv2 : Inv2 C s

/-- the shared tail of every control loop, for both invariants -/
theorem Both.loopCore {C : Cfg} (w : WF C) (n : Nat) (hn : n < C.nets.length) (s1 : St) (b1 : Both C s1) (chk : St → St)
    (hchk : ∀ s2, Inv C s2 → Inv C (chk s2) ∧ AllClear C (chk s2) n)
    (hchk2 : ∀ s2, Inv C s2 → Listed C s2 n →
      (∀ k ∈ (netOf C n).secs, gb (chk s2).secConn k = false → HasFailed C (chk s2) k) ∧ Listed C (chk s2) n ∧ (chk s2).check = s2.check ∧
      (chk s2).failed = s2.failed ∧ (∀ j, j ∉ (netOf C n).secs → gb (chk s2).secConn j = gb s2.secConn j) ∧
      (∀ m, m ≠ n → (chk s2).failedSecs.getD m [] = s2.failedSecs.getD m []))
    (g : St → St)
    (hg : ∀ a, (g a).conn = a.conn ∧ (g a).failed = a.failed ∧ (g a).cbOpen = a.cbOpen ∧ (g a).secConn = a.secConn ∧
      (g a).failedSecs = a.failedSecs ∧ (g a).check = a.check) :
    Both C (checkBreakerManually C
      (if gb (if gb s1.cbOpen (C.nets.getD n default).cb && decide (gr s1.timer n ≤ 0) then { s1 with check := s1.check.set n true } else s1).check n
       then { g (chk (if gb s1.cbOpen (C.nets.getD n default).cb && decide (gr s1.timer n ≤ 0) then { s1 with check := s1.check.set n true } else s1)) with
              check := (g (chk (if gb s1.cbOpen (C.nets.getD n default).cb && decide (gr s1.timer n ≤ 0) then { s1 with check := s1.check.set n true } else s1))).check.set n false }
       else (if gb s1.cbOpen (C.nets.getD n default).cb && decide (gr s1.timer n ≤ 0) then { s1 with check := s1.check.set n true } else s1)) n) := by
  have hI := Inv.loopCoreG w n hn s1 b1.inv chk hchk (fun a => { g a with check := (g a).check.set n false })
    (by intro a; obtain ⟨g1, g2, g3, g4, g5, g6⟩ := hg a; exact ⟨g1, g2, g3, g4, g5, by simp [g6]⟩)
  refine ⟨hI, ?_⟩
  set s2 : St := (if gb s1.cbOpen (C.nets.getD n default).cb && decide (gr s1.timer n ≤ 0) then { s1 with check := s1.check.set n true } else s1) with hs2
  have h2 : Inv C s2 := by
    rw [hs2]; split_ifs
    · exact b1.inv.congr rfl rfl rfl rfl rfl (by simp)
    · exact b1.inv
  have hnck : n < s1.check.length := by rw [b1.inv.sz.check]; exact hn
  -- raising the flag only weakens `Why`
  have k2 : Inv2 C s2 := by
    rw [hs2]; split_ifs
    · refine ⟨?_, b1.inv2.listed⟩
      intro m hm k hk hsc
      rcases b1.inv2.why m hm k hk hsc with hw | hc
      · exact Or.inl hw
      · right
        show gb (s1.check.set n true) m = true
        rw [gb_set]; split_ifs
        · rfl
        · exact hc
    · exact b1.inv2
  by_cases hck : gb s2.check n = true
  · rw [if_pos hck]
    obtain ⟨i3, a3⟩ := hchk s2 h2
    obtain ⟨c1, c2, c3, c4, c5, c6⟩ := hchk2 s2 h2 (k2.listed n hn)
    obtain ⟨g1, g2, g3, g4, g5, g6⟩ := hg (chk s2)
    have i4 : Inv C { g (chk s2) with check := (g (chk s2)).check.set n false } :=
      i3.congr g1 g2 g3 g4 g5 (by simp [g6])
    refine Inv2.checkBreaker w i4 ?_ n hn
    refine ⟨?_, ?_⟩
    · intro m hm k hk hsc
      change gb (g (chk s2)).secConn k = false at hsc
      rw [g4] at hsc
      by_cases hmn : m = n
      · subst hmn
        obtain ⟨l, hl, hfl⟩ := c1 k hk hsc
        exact Or.inl ⟨l, hl, by show gb (g (chk s2)).failed l = true; rw [g2]; exact hfl⟩
      · have hkn : k ∉ (netOf C n).secs := fun e => hmn (w.secs_disj n m hn hm k e hk)
        rw [c5 k hkn] at hsc
        rcases k2.why m hm k hk hsc with ⟨l, hl, hfl⟩ | hc
        · exact Or.inl ⟨l, hl, by show gb (g (chk s2)).failed l = true; rw [g2, c4]; exact hfl⟩
        · right
          show gb ((g (chk s2)).check.set n false) m = true
          rw [gb_set_ne _ _ _ _ (fun e => hmn e.symm), g6, c3]; exact hc
    · intro m hm k hk
      change k ∈ (g (chk s2)).failedSecs.getD m [] at hk
      show gb (g (chk s2)).secConn k = false
      rw [g5] at hk; rw [g4]
      by_cases hmn : m = n
      · subst hmn; exact c2 k hk
      · rw [c6 m hmn] at hk
        have hkm : k ∈ (netOf C m).secs := h2.fs m hm k hk
        have hkn : k ∉ (netOf C n).secs := fun e => hmn (w.secs_disj n m hn hm k e hkm)
        rw [c5 k hkn]; exact k2.listed m hm k hk
  · rw [if_neg hck]
    exact Inv2.checkBreaker w h2 k2 n hn


theorem childFold_fields (C : Cfg) (n : Nat) (ms : List Nat) (x : St) :
    let r := ms.foldl (fun (s : St) m => if gb s.cbOpen (C.nets.getD m default).cb then { s with pTimer := s.pTimer.set m (gr s.timer n) } else s) x
    r.conn = x.conn ∧ r.failed = x.failed ∧ r.cbOpen = x.cbOpen ∧ r.secConn = x.secConn ∧ r.failedSecs = x.failedSecs ∧ r.check = x.check := by
  induction ms generalizing x with
  | nil => exact ⟨rfl, rfl, rfl, rfl, rfl, rfl⟩
  | cons m ms ih =>
    simp only [List.foldl_cons]
    split_ifs
    · exact ih _
    · exact ih _

theorem manualCheck2 {C : Cfg} (w : WF C) (n : Nat) (hn : n < C.nets.length) (s2 : St) (h : Inv C s2) (hL : Listed C s2 n) :
    (∀ k ∈ (netOf C n).secs, gb (checkLinesManually C s2 n).secConn k = false → HasFailed C (checkLinesManually C s2 n) k) ∧
    Listed C (checkLinesManually C s2 n) n ∧ (checkLinesManually C s2 n).check = s2.check ∧
    (checkLinesManually C s2 n).failed = s2.failed ∧
    (∀ j, j ∉ (netOf C n).secs → gb (checkLinesManually C s2 n).secConn j = gb s2.secConn j) ∧
    (∀ m, m ≠ n → (checkLinesManually C s2 n).failedSecs.getD m [] = s2.failedSecs.getD m []) := by
  rw [checkLinesManually_eq]
  exact check2 w n hn (flagStep C n) (fun s' k hs' hk => flagStep_spec w n hn s' hs' k hk) (flagStep_spec2 C n) s2 h hL

theorem sensorCheck2 {C : Cfg} (w : WF C) (n : Nat) (hn : n < C.nets.length) (cm : Comm) (s2 : St) (h : Inv C s2) (hL : Listed C s2 n) :
    (∀ k ∈ (netOf C n).secs, gb (checkSensors C s2 n cm).secConn k = false → HasFailed C (checkSensors C s2 n cm) k) ∧
    Listed C (checkSensors C s2 n cm) n ∧ (checkSensors C s2 n cm).check = s2.check ∧
    (checkSensors C s2 n cm).failed = s2.failed ∧
    (∀ j, j ∉ (netOf C n).secs → gb (checkSensors C s2 n cm).secConn j = gb s2.secConn j) ∧
    (∀ m, m ≠ n → (checkSensors C s2 n cm).failedSecs.getD m [] = s2.failedSecs.getD m []) := by
  rw [checkSensors_eq]
  exact check2 w n hn (flagStepA C n cm) (fun s' k hs' hk => flagStepA_spec w n hn cm s' hs' k hk) (flagStepA_spec2 C n cm) s2 h hL

theorem Both.distLoop {C : Cfg} {s : St} (w : WF C) (b : Both C s) (n : Nat) (hn : n < C.nets.length) (dt : ℚ) :
    Both C (distLoop C s n dt) := by
  unfold Relsad.Control.distLoop
  simp only []
  have b1 : Both C { s with timer := s.timer.set n (tick (gr s.timer n) dt) } :=
    ⟨b.inv.congr rfl rfl rfl rfl rfl rfl, b.inv2.congr rfl rfl rfl rfl⟩
  exact Both.loopCore w n hn _ b1 (fun x => checkLinesManually C x n)
    (fun s2 h2 => by obtain ⟨i, a, _, _⟩ := h2.checkLines w n hn; exact ⟨i, a⟩)
    (fun s2 h2 hL => manualCheck2 w n hn s2 h2 hL)
    (fun a => (C.nets.getD n default).children.foldl (fun (s : St) m =>
        if gb s.cbOpen (C.nets.getD m default).cb then { s with pTimer := s.pTimer.set m (gr s.timer n) } else s) a)
    (fun a => childFold_fields C n _ a)

theorem Both.distLoopA {C : Cfg} {s : St} (w : WF C) (b : Both C s) (n : Nat) (hn : n < C.nets.length) (dt : ℚ) (cm : Comm) :
    Both C (distLoopA C s n dt cm) := by
  unfold Relsad.Control.distLoopA
  simp only []
  have b1 : Both C { s with timer := s.timer.set n (tick (gr s.timer n) dt) } :=
    ⟨b.inv.congr rfl rfl rfl rfl rfl rfl, b.inv2.congr rfl rfl rfl rfl⟩
  exact Both.loopCore w n hn _ b1 (fun x => checkSensors C x n cm)
    (fun s2 h2 => h2.checkSens w n hn cm)
    (fun s2 h2 hL => sensorCheck2 w n hn cm s2 h2 hL)
    (fun a => (C.nets.getD n default).children.foldl (fun (s : St) m =>
        if gb s.cbOpen (C.nets.getD m default).cb then { s with pTimer := s.pTimer.set m (gr s.timer n) } else s) a)
    (fun a => childFold_fields C n _ a)

theorem Both.mgLoop {C : Cfg} {s : St} (w : WF C) (b : Both C s) (n : Nat) (hn : n < C.nets.length) (dt : ℚ) :
    Both C (mgLoop C s n dt) := by
  unfold Relsad.Control.mgLoop
  simp only []
  have b1 : Both C { s with timer := s.timer.set n (if gr s.pTimer n > tick (gr s.timer n) dt then gr s.pTimer n else tick (gr s.timer n) dt),
                            pTimer := s.pTimer.set n (tick (gr s.pTimer n) dt) } :=
    ⟨b.inv.congr rfl rfl rfl rfl rfl rfl, b.inv2.congr rfl rfl rfl rfl⟩
  exact Both.loopCore w n hn _ b1 (fun x => checkLinesManually C x n)
    (fun s2 h2 => by obtain ⟨i, a, _, _⟩ := h2.checkLines w n hn; exact ⟨i, a⟩)
    (fun s2 h2 hL => manualCheck2 w n hn s2 h2 hL)
    (fun a => a) (fun a => ⟨rfl, rfl, rfl, rfl, rfl, rfl⟩)

theorem Both.mgLoopA {C : Cfg} {s : St} (w : WF C) (b : Both C s) (n : Nat) (hn : n < C.nets.length) (dt : ℚ) (cm : Comm) :
    Both C (mgLoopA C s n dt cm) := by
  unfold Relsad.Control.mgLoopA
  simp only []
  have b1 : Both C { s with timer := s.timer.set n (if gr s.pTimer n > tick (gr s.timer n) dt then gr s.pTimer n else tick (gr s.timer n) dt),
                            pTimer := s.pTimer.set n (tick (gr s.pTimer n) dt) } :=
    ⟨b.inv.congr rfl rfl rfl rfl rfl rfl, b.inv2.congr rfl rfl rfl rfl⟩
  exact Both.loopCore w n hn _ b1 (fun x => checkSensors C x n cm)
    (fun s2 h2 => h2.checkSens w n hn cm)
    (fun s2 h2 hL => sensorCheck2 w n hn cm s2 h2 hL)
    (fun a => a) (fun a => ⟨rfl, rfl, rfl, rfl, rfl, rfl⟩)

theorem both_foldl {C : Cfg} {α : Type} (f : St → α → St) (l : List α) (P : α → Prop) (hP : ∀ a ∈ l, P a)
    (hf : ∀ s a, P a → Both C s → Both C (f s a)) (s : St) (h : Both C s) : Both C (l.foldl f s) := by
  induction l generalizing s with
  | nil => exact h
  | cons a as ih =>
    simp only [List.foldl_cons]
    exact ih (fun x hx => hP x (List.mem_cons_of_mem _ hx)) _ (hf s a (hP a List.mem_cons_self) h)

theorem Both.step {C : Cfg} {s : St} (w : WF C) (b : Both C s) (dt : ℚ) : Both C (step C s dt) := by
  unfold Relsad.Control.step
  simp only []
  refine both_foldl _ _ (fun n => n < C.nets.length) ?_ (fun s' n hn h' => h'.mgLoop w n hn dt) _ ?_
  · intro n hn; exact List.mem_range.mp (List.mem_filter.mp hn).1
  refine both_foldl _ _ (fun n => n < C.nets.length) ?_ (fun s' n hn h' => h'.distLoop w n hn dt) _ ?_
  · intro n hn; exact List.mem_range.mp (List.mem_filter.mp hn).1
  exact both_foldl _ _ (fun l => l < C.lines.length) (fun l hl => List.mem_range.mp hl)
    (fun s' l hl h' => ⟨h'.inv.lineUpdate l dt, h'.inv2.afterUpdate w h'.inv.sz l hl dt⟩) _ b

theorem Both.stepA {C : Cfg} {s : St} (w : WF C) (b : Both C s) (dt : ℚ) (cm : Comm) : Both C (stepA C s dt cm) := by
  unfold Relsad.Control.stepA
  simp only []
  refine both_foldl _ _ (fun n => n < C.nets.length) ?_ (fun s' n hn h' => h'.mgLoopA w n hn dt cm) _ ?_
  · intro n hn; exact List.mem_range.mp (List.mem_filter.mp hn).1
  refine both_foldl _ _ (fun n => n < C.nets.length) ?_ (fun s' n hn h' => h'.distLoopA w n hn dt cm) _ ?_
  · intro n hn; exact List.mem_range.mp (List.mem_filter.mp hn).1
  exact both_foldl _ _ (fun l => l < C.lines.length) (fun l hl => List.mem_range.mp hl)
    (fun s' l hl h' => ⟨h'.inv.lineUpdate l dt, h'.inv2.afterUpdate w h'.inv.sz l hl dt⟩) _ b

theorem Both.init {C : Cfg} (w : WF C) : Both C (St.init C) := ⟨Inv.init w, Inv2.init w⟩

theorem Both.afterFail {C : Cfg} {s : St} (w : WF C) (b : Both C s) (l : Nat) (hl : l < C.lines.length) (rep : ℚ) :
    Both C (lineFail C s l rep) := ⟨b.inv.lineFail w l hl rep, b.inv2.afterFail l rep⟩


/-! ### after a whole increment every check flag is down -/

theorem check_checkLinesManually (C : Cfg) (s : St) (n : Nat) : (checkLinesManually C s n).check = s.check := by
  rw [checkLinesManually_eq, check_foldl_eq _ (fun s' k => (recoStep_fields C n s' k).2.1),
    check_foldl_eq _ (fun s' k => (flagStep_spec2 C n s' k).2.1)]

theorem check_checkSensors (C : Cfg) (s : St) (n : Nat) (cm : Comm) : (checkSensors C s n cm).check = s.check := by
  rw [checkSensors_eq, check_foldl_eq _ (fun s' k => (recoStep_fields C n s' k).2.1),
    check_foldl_eq _ (fun s' k => (flagStepA_spec2 C n cm s' k).2.1)]

/-- the flag of the loop's own network is down afterwards, the others are untouched -/
theorem loopCore_check (C : Cfg) (n : Nat) (s1 : St) (chk g : St → St) (hchk : ∀ a, (chk a).check = a.check)
    (hg : ∀ a, (g a).check = a.check) (m : Nat) :
    gb (checkBreakerManually C
      (if gb (if gb s1.cbOpen (C.nets.getD n default).cb && decide (gr s1.timer n ≤ 0) then { s1 with check := s1.check.set n true } else s1).check n
       then { g (chk (if gb s1.cbOpen (C.nets.getD n default).cb && decide (gr s1.timer n ≤ 0) then { s1 with check := s1.check.set n true } else s1)) with
              check := (g (chk (if gb s1.cbOpen (C.nets.getD n default).cb && decide (gr s1.timer n ≤ 0) then { s1 with check := s1.check.set n true } else s1))).check.set n false }
       else (if gb s1.cbOpen (C.nets.getD n default).cb && decide (gr s1.timer n ≤ 0) then { s1 with check := s1.check.set n true } else s1)) n).check m
      = if m = n then false else gb s1.check m := by
  rw [check_checkBreakerManually]
  set s2 : St := (if gb s1.cbOpen (C.nets.getD n default).cb && decide (gr s1.timer n ≤ 0) then { s1 with check := s1.check.set n true } else s1) with hs2
  have h2 : ∀ j, j ≠ n → gb s2.check j = gb s1.check j := by
    intro j hj; rw [hs2]; split_ifs
    · exact gb_set_ne _ _ _ _ (fun e => hj e.symm)
    · rfl
  by_cases hck : gb s2.check n = true
  · rw [if_pos hck]
    show gb ((g (chk s2)).check.set n false) m = _
    rw [hg, hchk, gb_set]
    by_cases hmn : m = n
    · subst hmn
      rw [if_pos rfl]
      by_cases hlt : m < s2.check.length
      · rw [if_pos ⟨rfl, hlt⟩]
      · exfalso
        have : gb s2.check m = false := by
          unfold gb; rw [List.getD_eq_getElem?_getD, List.getElem?_eq_none (Nat.le_of_not_lt hlt)]; rfl
        rw [this] at hck; exact absurd hck (by simp)
    · rw [if_neg hmn, if_neg (fun hh => hmn hh.1.symm)]; exact h2 m hmn
  · rw [if_neg hck]
    by_cases hmn : m = n
    · subst hmn; rw [if_pos rfl]
      cases hx : gb s2.check m
      · rfl
      · exact absurd hx hck
    · rw [if_neg hmn]; exact h2 m hmn

theorem distLoop_check (C : Cfg) (s : St) (n : Nat) (dt : ℚ) (m : Nat) :
    gb (distLoop C s n dt).check m = if m = n then false else gb s.check m := by
  unfold distLoop
  simp only []
  exact loopCore_check C n { s with timer := s.timer.set n (tick (gr s.timer n) dt) } (fun x => checkLinesManually C x n)
    (fun a => (C.nets.getD n default).children.foldl (fun (s : St) m =>
        if gb s.cbOpen (C.nets.getD m default).cb then { s with pTimer := s.pTimer.set m (gr s.timer n) } else s) a)
    (fun a => check_checkLinesManually C a n) (fun a => (childFold_fields C n _ a).2.2.2.2.2) m

theorem distLoopA_check (C : Cfg) (s : St) (n : Nat) (dt : ℚ) (cm : Comm) (m : Nat) :
    gb (distLoopA C s n dt cm).check m = if m = n then false else gb s.check m := by
  unfold distLoopA
  simp only []
  exact loopCore_check C n { s with timer := s.timer.set n (tick (gr s.timer n) dt) } (fun x => checkSensors C x n cm)
    (fun a => (C.nets.getD n default).children.foldl (fun (s : St) m =>
        if gb s.cbOpen (C.nets.getD m default).cb then { s with pTimer := s.pTimer.set m (gr s.timer n) } else s) a)
    (fun a => check_checkSensors C a n cm) (fun a => (childFold_fields C n _ a).2.2.2.2.2) m

theorem mgLoop_check (C : Cfg) (s : St) (n : Nat) (dt : ℚ) (m : Nat) :
    gb (mgLoop C s n dt).check m = if m = n then false else gb s.check m := by
  unfold mgLoop
  simp only []
  exact loopCore_check C n
    ({ s with timer := s.timer.set n (if gr s.pTimer n > tick (gr s.timer n) dt then gr s.pTimer n else tick (gr s.timer n) dt),
              pTimer := s.pTimer.set n (tick (gr s.pTimer n) dt) } : St)
    (fun x => checkLinesManually C x n) (fun a => a) (fun a => check_checkLinesManually C a n) (fun _ => rfl) m

theorem mgLoopA_check (C : Cfg) (s : St) (n : Nat) (dt : ℚ) (cm : Comm) (m : Nat) :
    gb (mgLoopA C s n dt cm).check m = if m = n then false else gb s.check m := by
  unfold mgLoopA
  simp only []
  exact loopCore_check C n
    ({ s with timer := s.timer.set n (if gr s.pTimer n > tick (gr s.timer n) dt then gr s.pTimer n else tick (gr s.timer n) dt),
              pTimer := s.pTimer.set n (tick (gr s.pTimer n) dt) } : St)
    (fun x => checkSensors C x n cm) (fun a => a) (fun a => check_checkSensors C a n cm) (fun _ => rfl) m

theorem loops_check (f : St → Nat → St) (hf : ∀ s n m, gb (f s n).check m = if m = n then false else gb s.check m)
    (ns : List Nat) (s : St) (m : Nat) : gb (ns.foldl f s).check m = if m ∈ ns then false else gb s.check m := by
  induction ns generalizing s with
  | nil => simp
  | cons a as ih =>
    simp only [List.foldl_cons]
    rw [ih, hf]
    by_cases h1 : m ∈ as
    · simp [h1]
    · by_cases h2 : m = a
      · simp [h2]
      · simp [h1, h2]

theorem step_check_down (C : Cfg) (s : St) (dt : ℚ) (m : Nat) (hm : m < C.nets.length) : gb (step C s dt).check m = false := by
  unfold step
  simp only []
  rw [loops_check _ (fun s n m => mgLoop_check C s n dt m), loops_check _ (fun s n m => distLoop_check C s n dt m)]
  by_cases hmg : isMg C m = true
  · rw [if_pos (List.mem_filter.mpr ⟨List.mem_range.mpr hm, hmg⟩)]
  · rw [if_neg (fun h => hmg (List.mem_filter.mp h).2), if_pos (List.mem_filter.mpr ⟨List.mem_range.mpr hm, by simpa using hmg⟩)]

theorem stepA_check_down (C : Cfg) (s : St) (dt : ℚ) (cm : Comm) (m : Nat) (hm : m < C.nets.length) :
    gb (stepA C s dt cm).check m = false := by
  unfold stepA
  simp only []
  rw [loops_check _ (fun s n m => mgLoopA_check C s n dt cm m), loops_check _ (fun s n m => distLoopA_check C s n dt cm m)]
  by_cases hmg : isMg C m = true
  · rw [if_pos (List.mem_filter.mpr ⟨List.mem_range.mpr hm, hmg⟩)]
  · rw [if_neg (fun h => hmg (List.mem_filter.mp h).2), if_pos (List.mem_filter.mpr ⟨List.mem_range.mpr hm, by simpa using hmg⟩)]

end Relsad.Control
