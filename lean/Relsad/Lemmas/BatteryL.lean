/-
Helper lemmas for C11: pure rational algebra of the two clamps and of the active/reactive
apportioning in Battery.discharge, then full specifications of `chargeCore`/`dischargeCore`.
-/
import Relsad.Model.Battery
import Mathlib.Tactic.Linarith
import Mathlib.Tactic.FieldSimp
import Mathlib.Tactic.Ring
import Mathlib.Tactic.Positivity
import Mathlib.Algebra.Order.Field.Rat

namespace Relsad.BatteryL
open Relsad Relsad.Battery

/-- Configurations the theorems cover (the constructor checks of Battery.py:169-178, with the
strict positivity its messages ask for where a division depends on it). -/
structure WF (P : BatParams) : Prop where
  eMax_pos : 0 < P.eMax
  eta_pos : 0 < P.eta
  eta_le : P.eta ≤ 1
  socMin_nonneg : 0 ≤ P.socMin0
  soc_le : P.socMin0 ≤ P.socMax
  socMax_le : P.socMax ≤ 1
  qMax_nonneg : 0 ≤ P.qMax
  pMax_nonneg : 0 ≤ P.pMax


/-- upper clamp of `charge`: the scaled step lands exactly on `socMax·eMax`. -/
theorem cclamp (e dE emax socmax : ℚ) (hemax : 0 < emax) (hinv : e ≤ socmax * emax)
    (hgt : (e + dE) / emax > socmax) :
    0 < dE ∧ dE / emax ≠ 0 ∧
    0 ≤ 1 - ((e + dE) / emax - socmax) / (dE / emax) ∧
    1 - ((e + dE) / emax - socmax) / (dE / emax) < 1 ∧
    e + (1 - ((e + dE) / emax - socmax) / (dE / emax)) * dE = socmax * emax := by
  have hdE : 0 < dE := by
    rw [gt_iff_lt, lt_div_iff₀ hemax] at hgt; linarith
  have hne : dE ≠ 0 := ne_of_gt hdE
  have hf : 1 - ((e + dE) / emax - socmax) / (dE / emax) = (socmax * emax - e) / dE := by
    field_simp; ring
  refine ⟨hdE, by positivity, ?_, ?_, ?_⟩
  · rw [hf]; exact div_nonneg (by linarith) (le_of_lt hdE)
  · rw [hf, div_lt_one hdE]
    rw [gt_iff_lt, lt_div_iff₀ hemax] at hgt; linarith
  · rw [hf]; field_simp; ring

/-- lower clamp of `discharge`. -/
theorem dclamp (e dE emax L : ℚ) (hemax : 0 < emax) (hinv : L * emax ≤ e)
    (hlt : (e - dE) / emax < L) (hpos : dE / emax > 0) :
    0 ≤ 1 - (L - (e - dE) / emax) / (dE / emax) ∧
    1 - (L - (e - dE) / emax) / (dE / emax) < 1 ∧
    e - (1 - (L - (e - dE) / emax) / (dE / emax)) * dE = L * emax := by
  have hdE : 0 < dE := by
    have := (div_pos_iff_of_pos_right hemax).mp hpos; exact this
  have hne : dE ≠ 0 := ne_of_gt hdE
  have hf : 1 - (L - (e - dE) / emax) / (dE / emax) = (e - L * emax) / dE := by
    field_simp; ring
  refine ⟨?_, ?_, ?_⟩
  · rw [hf]; exact div_nonneg (by linarith) (le_of_lt hdE)
  · rw [hf, div_lt_one hdE]
    rw [div_lt_iff₀ hemax] at hlt; linarith
  · rw [hf]; field_simp; ring

/-- apportioning of a combined overload between active and reactive power: each is cut in
proportion to its own share, so both stay non-negative and their sum lands on the rating. -/
theorem apportion (p1 q1 M : ℚ) (hp : 0 ≤ p1) (hq : 0 ≤ q1) (hM : 0 ≤ M)
    (hgt : p1 + q1 > M) :
    0 ≤ p1 - (p1 + q1 - M) * (p1 / (p1 + q1)) ∧
    p1 - (p1 + q1 - M) * (p1 / (p1 + q1)) ≤ p1 ∧
    0 ≤ q1 - (p1 + q1 - M) * (1 - p1 / (p1 + q1)) ∧
    q1 - (p1 + q1 - M) * (1 - p1 / (p1 + q1)) ≤ q1 ∧
    (p1 - (p1 + q1 - M) * (p1 / (p1 + q1))) + (q1 - (p1 + q1 - M) * (1 - p1 / (p1 + q1))) = M := by
  have hS : 0 < p1 + q1 := by linarith
  have hne : p1 + q1 ≠ 0 := ne_of_gt hS
  have e1 : p1 - (p1 + q1 - M) * (p1 / (p1 + q1)) = p1 * M / (p1 + q1) := by
    field_simp; ring
  have e2 : q1 - (p1 + q1 - M) * (1 - p1 / (p1 + q1)) = q1 * M / (p1 + q1) := by
    field_simp; ring
  have d1 : 0 ≤ (p1 + q1 - M) * (p1 / (p1 + q1)) :=
    mul_nonneg (by linarith) (div_nonneg hp (le_of_lt hS))
  have d2 : 0 ≤ (p1 + q1 - M) * (1 - p1 / (p1 + q1)) := by
    have : 1 - p1 / (p1 + q1) = q1 / (p1 + q1) := by field_simp; ring
    rw [this]; exact mul_nonneg (by linarith) (div_nonneg hq (le_of_lt hS))
  refine ⟨?_, by linarith, ?_, by linarith, ?_⟩
  · rw [e1]; exact div_nonneg (mul_nonneg hp hM) (le_of_lt hS)
  · rw [e2]; exact div_nonneg (mul_nonneg hq hM) (le_of_lt hS)
  · rw [e1, e2]; field_simp

/-- the energy step of `charge` once the power limit has been applied. -/
theorem charge_tail (P : BatParams) (wf : WF P) (e h rem0 p1 : ℚ)
    (hE : e ≤ P.socMax * P.eMax) (hr0 : 0 ≤ rem0) (hp1 : 0 ≤ p1) (hh : 0 ≤ h) :
    ∃ e' r,
      (if (e + P.eta * p1 * h) / P.eMax > P.socMax then
        (if (P.eta * p1 * h / P.eMax == 0) = true then none else
          some (e + (1 - ((e + P.eta * p1 * h) / P.eMax - P.socMax) / (P.eta * p1 * h / P.eMax)) * (P.eta * p1 * h),
                rem0 + (1 - (1 - ((e + P.eta * p1 * h) / P.eMax - P.socMax) / (P.eta * p1 * h / P.eMax))) * p1))
       else some (e + P.eta * p1 * h, rem0)) = some (e', r) ∧
      e ≤ e' ∧ e' ≤ P.socMax * P.eMax ∧ rem0 ≤ r ∧ r ≤ rem0 + p1 ∧
      e' - e = P.eta * (rem0 + p1 - r) * h := by
  have hem := wf.eMax_pos
  have heta := wf.eta_pos
  have hdE : 0 ≤ P.eta * p1 * h := by positivity
  by_cases hgt : (e + P.eta * p1 * h) / P.eMax > P.socMax
  · obtain ⟨hdpos, hdne, hf0, hf1, heq⟩ := cclamp e (P.eta * p1 * h) P.eMax P.socMax hem hE hgt
    simp only [hgt, if_true, beq_iff_eq, hdne, if_false]
    set f := 1 - ((e + P.eta * p1 * h) / P.eMax - P.socMax) / (P.eta * p1 * h / P.eMax) with hfdef
    refine ⟨_, _, rfl, ?_, le_of_eq heq, ?_, ?_, ?_⟩
    · nlinarith
    · nlinarith
    · nlinarith
    · ring
  · simp only [hgt, if_false]
    refine ⟨_, _, rfl, by linarith, ?_, le_refl _, by linarith, by ring⟩
    have := not_lt.mp hgt
    rwa [div_le_iff₀ hem] at this

/-- Full specification of the charging arithmetic. -/
theorem chargeCore_spec (P : BatParams) (wf : WF P) (e pCh h : ℚ)
    (hE : e ≤ P.socMax * P.eMax) (hp : 0 ≤ pCh) (hh : 0 ≤ h) :
    ∃ e' r, chargeCore P e pCh h = some (e', r) ∧
      e ≤ e' ∧ e' ≤ P.socMax * P.eMax ∧ 0 ≤ r ∧ r ≤ pCh ∧ pCh - r ≤ P.pMax ∧
      e' - e = P.eta * (pCh - r) * h := by
  have hpm := wf.pMax_nonneg
  unfold chargeCore
  by_cases hc : pCh > P.pMax
  · have e1 : (if pCh ≥ INF then P.pMax else pCh - (pCh - P.pMax)) = P.pMax := by
      by_cases hi : pCh ≥ INF <;> simp [hi]
    simp only [hc, if_true, e1]
    obtain ⟨e', r, h1, h2, h3, h4, h5, h6⟩ := charge_tail P wf e h (pCh - P.pMax) P.pMax hE (by linarith) hpm hh
    refine ⟨e', r, h1, h2, h3, by linarith, by linarith, by linarith, ?_⟩
    rw [h6]; ring
  · simp only [hc, if_false]
    obtain ⟨e', r, h1, h2, h3, h4, h5, h6⟩ := charge_tail P wf e h 0 pCh hE (le_refl _) hp hh
    refine ⟨e', r, h1, h2, h3, h4, by linarith, by linarith [not_lt.mp hc], ?_⟩
    rw [h6]; ring

/-- Full specification of the discharging arithmetic, for the lower limit `L` in force. -/
theorem dischargeCore_spec (P : BatParams) (wf : WF P) (e L p q h : ℚ)
    (hE : L * P.eMax ≤ e) (hp : 0 ≤ p) (hq : 0 ≤ q) (hh : 0 ≤ h) :
    ∃ e' pr qr, dischargeCore P e L p q h = some (e', pr, qr) ∧
      L * P.eMax ≤ e' ∧ e' ≤ e ∧ 0 ≤ pr ∧ pr ≤ p ∧ 0 ≤ qr ∧ qr ≤ q ∧
      p - pr ≤ P.pMax ∧ q - qr ≤ P.qMax ∧ (p - pr) + (q - qr) ≤ P.pMax ∧
      e - e' = 1 / P.eta * ((p - pr) + (q - qr)) * h := by
  have hpm := wf.pMax_nonneg
  have hem := wf.eMax_pos
  have heta := wf.eta_pos
  have hetane : ¬ (P.eta = 0) := ne_of_gt heta
  -- per-channel limits
  obtain ⟨pr0, hpr0d, hpr0, hp1, hp1M⟩ :
      ∃ pr0 : ℚ, (if p > P.pMax then p - P.pMax else 0) = pr0 ∧ 0 ≤ pr0 ∧ 0 ≤ p - pr0 ∧ p - pr0 ≤ P.pMax := by
    by_cases hc : p > P.pMax
    · exact ⟨p - P.pMax, by simp [hc], by linarith, by linarith, by linarith⟩
    · exact ⟨0, by simp [hc], le_refl _, by linarith, by linarith [not_lt.mp hc]⟩
  obtain ⟨qr0, hqr0d, hqr0, hq1, hq1M⟩ :
      ∃ qr0 : ℚ, (if q > P.qMax then q - P.qMax else 0) = qr0 ∧ 0 ≤ qr0 ∧ 0 ≤ q - qr0 ∧ q - qr0 ≤ P.qMax := by
    by_cases hc : q > P.qMax
    · exact ⟨q - P.qMax, by simp [hc], by linarith, by linarith [wf.qMax_nonneg], by linarith⟩
    · exact ⟨0, by simp [hc], le_refl _, by linarith, by linarith [not_lt.mp hc]⟩
  -- combined limit
  obtain ⟨pr1, qr1, p2, q2, hlim, hpr1, hqr1, hp2, hq2, hp2le, hq2le, hsumle, hpe, hqe⟩ :
      ∃ pr1 qr1 p2 q2 : ℚ,
        (if (p - pr0) + (q - qr0) > P.pMax then
          (if (p - pr0) + (q - qr0) == 0 then none else
            some (pr0 + ((p - pr0) + (q - qr0) - P.pMax) * ((p - pr0) / ((p - pr0) + (q - qr0))),
                  qr0 + ((p - pr0) + (q - qr0) - P.pMax) * (1 - (p - pr0) / ((p - pr0) + (q - qr0))),
                  (p - pr0) - ((p - pr0) + (q - qr0) - P.pMax) * ((p - pr0) / ((p - pr0) + (q - qr0))),
                  (q - qr0) - ((p - pr0) + (q - qr0) - P.pMax) * (1 - (p - pr0) / ((p - pr0) + (q - qr0)))))
         else some (pr0, qr0, p - pr0, q - qr0)) = some (pr1, qr1, p2, q2) ∧
        0 ≤ pr1 ∧ 0 ≤ qr1 ∧ 0 ≤ p2 ∧ 0 ≤ q2 ∧ p2 ≤ P.pMax ∧ q2 ≤ P.qMax ∧ p2 + q2 ≤ P.pMax ∧
        pr1 + p2 = p ∧ qr1 + q2 = q := by
    by_cases hc : (p - pr0) + (q - qr0) > P.pMax
    · have hS : (p - pr0) + (q - qr0) ≠ 0 := by intro h0; rw [h0] at hc; linarith
      obtain ⟨a1, a2, a3, a4, a5⟩ := apportion (p - pr0) (q - qr0) P.pMax hp1 hq1 hpm hc
      refine ⟨pr0 + ((p - pr0) + (q - qr0) - P.pMax) * ((p - pr0) / ((p - pr0) + (q - qr0))),
              qr0 + ((p - pr0) + (q - qr0) - P.pMax) * (1 - (p - pr0) / ((p - pr0) + (q - qr0))),
              (p - pr0) - ((p - pr0) + (q - qr0) - P.pMax) * ((p - pr0) / ((p - pr0) + (q - qr0))),
              (q - qr0) - ((p - pr0) + (q - qr0) - P.pMax) * (1 - (p - pr0) / ((p - pr0) + (q - qr0))),
              by simp only [hc, if_true, beq_iff_eq, hS, if_false], ?_, ?_, a1, a3, by linarith,
        by linarith, le_of_eq a5, by ring, by ring⟩
      · have := sub_nonneg.mpr a2; linarith
      · have := sub_nonneg.mpr a4; linarith
    · refine ⟨pr0, qr0, p - pr0, q - qr0, by simp only [hc, if_false], hpr0, hqr0, hp1, hq1, hp1M, hq1M, ?_, by ring, by ring⟩
      exact not_lt.mp hc
  unfold dischargeCore injMax
  simp only [hpr0d, hqr0d, beq_iff_eq, hetane, if_false]
  simp only [beq_iff_eq] at hlim
  rw [hlim]
  have hdE : 0 ≤ 1 / P.eta * (p2 + q2) * h := by positivity
  by_cases hcl : (e - 1 / P.eta * (p2 + q2) * h) / P.eMax < L ∧ 1 / P.eta * (p2 + q2) * h / P.eMax > 0
  · obtain ⟨hf0, hf1, heq⟩ := dclamp e (1 / P.eta * (p2 + q2) * h) P.eMax L hem hE hcl.1 hcl.2
    simp only [hcl, and_self, if_true]
    set f := 1 - (L - (e - 1 / P.eta * (p2 + q2) * h) / P.eMax) / (1 / P.eta * (p2 + q2) * h / P.eMax) with hfdef
    have hpd : p - (pr1 + (1 - f) * p2) = f * p2 := by rw [← hpe]; ring
    have hqd : q - (qr1 + (1 - f) * q2) = f * q2 := by rw [← hqe]; ring
    have hfp : 0 ≤ f * p2 := mul_nonneg hf0 hp2
    have hfq : 0 ≤ f * q2 := mul_nonneg hf0 hq2
    have hfp' : f * p2 ≤ p2 := by nlinarith
    have hfq' : f * q2 ≤ q2 := by nlinarith
    refine ⟨_, _, _, rfl, le_of_eq heq.symm, ?_, ?_, ?_, ?_, ?_, ?_, ?_, ?_, ?_⟩
    · nlinarith
    · nlinarith
    · linarith
    · nlinarith
    · linarith
    · rw [hpd]; linarith
    · rw [hqd]; linarith
    · rw [hpd, hqd]; linarith
    · rw [hpd, hqd]; ring
  · simp only [hcl, if_false]
    have hnot : ¬ ((e - 1 / P.eta * (p2 + q2) * h) / P.eMax < L) ∨ ¬ (1 / P.eta * (p2 + q2) * h / P.eMax > 0) :=
      not_and_or.mp hcl
    refine ⟨_, _, _, rfl, ?_, by linarith, hpr1, by linarith, hqr1, by linarith, by linarith, by linarith,
      by linarith, ?_⟩
    · rcases hnot with h1 | h2
      · have := not_lt.mp h1; rwa [le_div_iff₀ hem] at this
      · have h0 : 1 / P.eta * (p2 + q2) * h / P.eMax ≤ 0 := not_lt.mp h2
        have : 1 / P.eta * (p2 + q2) * h ≤ 0 := by
          by_contra hh'
          exact h2 (div_pos (not_le.mp hh') hem)
        linarith
    · have e1 : p - pr1 = p2 := by linarith
      have e2 : q - qr1 = q2 := by linarith
      rw [e1, e2]; ring

end Relsad.BatteryL
