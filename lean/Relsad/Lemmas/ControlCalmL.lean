/-
Return to normal (C06): what the control loops do once no line is failed any more.

* frame lemmas for the two timer vectors, and the invariant "no timer exceeds the manual sectioning time"
  (manual control, non-negative time steps);
* the converse of `Flagged`: a network is flagged only while one of its lines is failed;
* a control loop run on a calm state (nothing failed, every section in service, nothing listed, no check
  pending) only counts its timer down and recloses its breaker when the timer has run out.
-/
import Relsad.Lemmas.ControlGL
import Mathlib.Algebra.Order.Field.Rat
import Mathlib.Tactic.Linarith

namespace Relsad.Control

theorem gr_set (l : List ℚ) (i j : Nat) (v : ℚ) :
    gr (l.set i v) j = if i = j ∧ i < l.length then v else gr l j := by
  unfold gr
  simp only [List.getD_eq_getElem?_getD, List.getElem?_set]
  by_cases h : i = j
  · subst h
    by_cases hl : i < l.length
    · simp [hl]
    · simp [hl]
  · simp [h]

theorem gr_set_self (l : List ℚ) (i : Nat) (v : ℚ) (h : i < l.length) : gr (l.set i v) i = v := by
  rw [gr_set]; simp [h]

theorem gr_set_ne (l : List ℚ) (i j : Nat) (v : ℚ) (h : i ≠ j) : gr (l.set i v) j = gr l j := by
  rw [gr_set]; simp [h]

/-! ### which operations touch the timers -/

theorem tm_foldl_eq {α : Type} (f : St → α → St) (hf : ∀ s a, (f s a).timer = s.timer ∧ (f s a).pTimer = s.pTimer)
    (l : List α) (s : St) : (l.foldl f s).timer = s.timer ∧ (l.foldl f s).pTimer = s.pTimer := by
  induction l generalizing s with
  | nil => exact ⟨rfl, rfl⟩
  | cons a as ih =>
    simp only [List.foldl_cons]
    exact ⟨(ih _).1.trans (hf s a).1, (ih _).2.trans (hf s a).2⟩

theorem tm_cbOpenOp (C : Cfg) (s : St) (c : Nat) : (cbOpenOp C s c).timer = s.timer ∧ (cbOpenOp C s c).pTimer = s.pTimer := by
  unfold cbOpenOp
  simp only [lineDisconnect]
  exact tm_foldl_eq _ (fun s' d => by split_ifs <;> exact ⟨rfl, rfl⟩) _ _

theorem tm_cbCloseOp (C : Cfg) (s : St) (c : Nat) : (cbCloseOp C s c).timer = s.timer ∧ (cbCloseOp C s c).pTimer = s.pTimer := by
  unfold cbCloseOp
  simp only [lineConnect]
  exact tm_foldl_eq _ (fun s' d => by split_ifs <;> exact ⟨rfl, rfl⟩) _ _

theorem tm_swOpen (C : Cfg) (s : St) (sw : Sw) : (swOpen C s sw).timer = s.timer ∧ (swOpen C s sw).pTimer = s.pTimer := by
  cases sw with
  | discon d => exact ⟨rfl, rfl⟩
  | breaker c => exact tm_cbOpenOp C s c

theorem tm_secDisconnect (C : Cfg) (s : St) (k : Nat) : (secDisconnect C s k).timer = s.timer ∧ (secDisconnect C s k).pTimer = s.pTimer := by
  unfold secDisconnect
  simp only
  have h1 := tm_foldl_eq lineDisconnect (fun s' l => ⟨rfl, rfl⟩) (C.secs.getD k default).lines { s with secConn := s.secConn.set k false }
  have h2 := tm_foldl_eq (swOpen C) (fun s' sw => tm_swOpen C s' sw) (C.secs.getD k default).switches
    ((C.secs.getD k default).lines.foldl lineDisconnect { s with secConn := s.secConn.set k false })
  exact ⟨h2.1.trans h1.1, h2.2.trans h1.2⟩

theorem tm_secConnectManually (C : Cfg) (s : St) (k : Nat) :
    (secConnectManually C s k).timer = s.timer ∧ (secConnectManually C s k).pTimer = s.pTimer := by
  rw [secConnectManually_eq2]
  have h1 := tm_foldl_eq (lineStep C) (fun s' l => by
      unfold lineStep
      cases (C.lines.getD l default).cb with
      | none => exact ⟨rfl, rfl⟩
      | some c => simp only; split_ifs <;> exact ⟨rfl, rfl⟩) (C.secs.getD k default).lines { s with secConn := s.secConn.set k true }
  have h2 := tm_foldl_eq (swStep C) (fun s' sw => by
      cases sw with
      | breaker c => exact ⟨rfl, rfl⟩
      | discon d =>
        unfold swStep
        simp only
        split_ifs
        · exact ⟨rfl, rfl⟩
        · cases (C.lines.getD (C.disconLine.getD d 0) default).cb with
          | none => exact ⟨rfl, rfl⟩
          | some c => simp only; split_ifs <;> exact ⟨rfl, rfl⟩) (C.secs.getD k default).switches
    ((C.secs.getD k default).lines.foldl (lineStep C) { s with secConn := s.secConn.set k true })
  exact ⟨h2.1.trans h1.1, h2.2.trans h1.2⟩

theorem tm_recoStep (C : Cfg) (n : Nat) (s : St) (k : Nat) : (recoStep C n s k).timer = s.timer ∧ (recoStep C n s k).pTimer = s.pTimer := by
  unfold recoStep
  simp only
  split_ifs
  · exact ⟨rfl, rfl⟩
  · exact tm_secConnectManually C s k

theorem tm_checkBreakerManually (C : Cfg) (s : St) (n : Nat) :
    (checkBreakerManually C s n).timer = s.timer ∧ (checkBreakerManually C s n).pTimer = s.pTimer := by
  have hd := tm_foldl_eq (secDisconnect C) (tm_secDisconnect C) (s.failedSecs.getD n []) s
  unfold checkBreakerManually
  simp only
  split_ifs
  · exact ⟨rfl, rfl⟩
  · exact ⟨rfl, rfl⟩
  · have h2 := tm_cbCloseOp C ((s.failedSecs.getD n []).foldl (secDisconnect C) s) (C.nets.getD n default).cb
    have h3 := tm_secConnectManually C (cbCloseOp C ((s.failedSecs.getD n []).foldl (secDisconnect C) s) (C.nets.getD n default).cb)
      (C.lines.getD (C.nets.getD n default).connLine default).sec
    exact ⟨h3.1.trans (h2.1.trans hd.1), h3.2.trans (h2.2.trans hd.2)⟩
  · exact hd
  · exact ⟨rfl, rfl⟩

theorem tm_lineUpdate (C : Cfg) (s : St) (l : Nat) (dt : ℚ) : (lineUpdate C s l dt).timer = s.timer ∧ (lineUpdate C s l dt).pTimer = s.pTimer := by
  have nf : ∀ x : St, (lineNotFail C x l).timer = x.timer ∧ (lineNotFail C x l).pTimer = x.pTimer := by
    intro x; unfold lineNotFail; simp only; split_ifs <;> exact ⟨rfl, rfl⟩
  unfold lineUpdate
  simp only []
  split_ifs
  · exact nf _
  · exact ⟨rfl, rfl⟩
  · exact nf _

theorem tm_lineFail (C : Cfg) (s : St) (l : Nat) (rep : ℚ) : (lineFail C s l rep).timer = s.timer ∧ (lineFail C s l rep).pTimer = s.pTimer := by
  unfold lineFail
  simp only
  split_ifs
  · have h1 := tm_cbOpenOp C { s with failed := s.failed.set l true, netFailed := s.netFailed.set (C.lines.getD l default).net true, rem := s.rem.set l rep }
      (C.nets.getD (C.lines.getD l default).net default).cb
    have h2 := tm_foldl_eq (fun s m => cbOpenOp C s (C.nets.getD m default).cb) (fun s' m => tm_cbOpenOp C s' _)
      (C.nets.getD (C.lines.getD l default).net default).children
      (cbOpenOp C { s with failed := s.failed.set l true, netFailed := s.netFailed.set (C.lines.getD l default).net true, rem := s.rem.set l rep }
        (C.nets.getD (C.lines.getD l default).net default).cb)
    exact ⟨h2.1.trans h1.1, h2.2.trans h1.2⟩
  · exact ⟨rfl, rfl⟩

/-! ### no timer exceeds the manual sectioning time (manual control) -/

/-- timers are bounded by the manual sectioning time; the parent timer of a network that is not a microgrid is never started -/
structure TB (C : Cfg) (s : St) : Prop where
  tlen : s.timer.length = C.nets.length
  plen : s.pTimer.length = C.nets.length
  timer : ∀ m, gr s.timer m ≤ C.T
  pTimer : ∀ m, gr s.pTimer m ≤ C.T
  dist : ∀ m, isMg C m = false → gr s.pTimer m ≤ 0

theorem TB.congr {C : Cfg} {s s' : St} (h : TB C s) (h1 : s'.timer = s.timer) (h2 : s'.pTimer = s.pTimer) : TB C s' :=
  ⟨by rw [h1]; exact h.tlen, by rw [h2]; exact h.plen, fun m => by rw [h1]; exact h.timer m, fun m => by rw [h2]; exact h.pTimer m, fun m hm => by rw [h2]; exact h.dist m hm⟩

theorem TB.init (C : Cfg) (hT : 0 ≤ C.T) : TB C (St.init C) :=
  ⟨by simp [St.init], by simp [St.init], fun m => by rw [show gr (St.init C).timer m = 0 from gr_map_const _ _]; exact hT,
   fun m => by rw [show gr (St.init C).pTimer m = 0 from gr_map_const _ _]; exact hT,
   fun m _ => by rw [show gr (St.init C).pTimer m = 0 from gr_map_const _ _]⟩

theorem tick_le {t dt B : ℚ} (ht : t ≤ B) (hB : 0 ≤ B) (hdt : 0 ≤ dt) : tick t dt ≤ B := by
  unfold tick; split_ifs <;> linarith

theorem tm_flagStep_pTimer (C : Cfg) (n : Nat) (s : St) (k : Nat) : (flagStep C n s k).pTimer = s.pTimer := by
  have rf : ∀ (T : ℚ) (ls : List Nat) (x : St),
      (ls.foldl (fun (s : St) l => { s with rem := s.rem.set l (gr s.rem l + T) }) x).pTimer = x.pTimer := by
    intro T ls
    induction ls with
    | nil => intro x; rfl
    | cons a as ih => intro x; simp only [List.foldl_cons]; exact ih _
  unfold flagStep
  simp only
  split_ifs
  · exact rf _ _ _
  · rfl

theorem remFold_timer (T : ℚ) (ls : List Nat) (x : St) :
    (ls.foldl (fun (s : St) l => { s with rem := s.rem.set l (gr s.rem l + T) }) x).timer = x.timer := by
  induction ls generalizing x with
  | nil => rfl
  | cons a as ih => simp only [List.foldl_cons]; exact ih _

theorem flagStep_timer (C : Cfg) (n : Nat) (s : St) (k : Nat) :
    (flagStep C n s k).timer = if anyFailed s (C.secs.getD k default).lines then s.timer.set n C.T else s.timer := by
  unfold flagStep
  simp only
  split_ifs
  · exact remFold_timer _ _ _
  · rfl

theorem TB.checkLines {C : Cfg} {s : St} (h : TB C s) (n : Nat) : TB C (checkLinesManually C s n) := by
  rw [checkLinesManually_eq]
  have key : ∀ (ks : List Nat) (x : St), TB C x → TB C (ks.foldl (flagStep C n) x) := by
    intro ks
    induction ks with
    | nil => intro x hx; exact hx
    | cons a as ih =>
      intro x hx
      simp only [List.foldl_cons]
      refine ih _ ⟨?_, by rw [tm_flagStep_pTimer]; exact hx.plen, ?_, ?_, ?_⟩
      · rw [flagStep_timer]; split_ifs
        · simp [hx.tlen]
        · exact hx.tlen
      · intro m
        rw [flagStep_timer]
        split_ifs
        · rw [gr_set]; split_ifs
          · exact le_refl _
          · exact hx.timer m
        · exact hx.timer m
      · intro m; rw [tm_flagStep_pTimer]; exact hx.pTimer m
      · intro m hm; rw [tm_flagStep_pTimer]; exact hx.dist m hm
  have h1 := key ((netOf C n).secs.filter (fun k => gb s.secConn k)) s h
  have h2 := tm_foldl_eq (recoStep C n) (tm_recoStep C n) ((netOf C n).secs.filter (fun k => !gb s.secConn k))
    (((netOf C n).secs.filter (fun k => gb s.secConn k)).foldl (flagStep C n) s)
  exact h1.congr h2.1 h2.2

theorem childFold_tm (C : Cfg) (n : Nat) (ms : List Nat) (x : St) :
    let r := ms.foldl (fun (s : St) m => if gb s.cbOpen (C.nets.getD m default).cb then { s with pTimer := s.pTimer.set m (gr s.timer n) } else s) x
    r.timer = x.timer ∧ r.pTimer.length = x.pTimer.length ∧
    ∀ m, gr r.pTimer m = gr x.pTimer m ∨ (m ∈ ms ∧ gr r.pTimer m = gr x.timer n) := by
  induction ms generalizing x with
  | nil => exact ⟨rfl, rfl, fun _ => Or.inl rfl⟩
  | cons a as ih =>
    simp only [List.foldl_cons]
    split_ifs
    · obtain ⟨e1, e2, e3⟩ := ih { x with pTimer := x.pTimer.set a (gr x.timer n) }
      refine ⟨e1, by rw [e2]; simp, ?_⟩
      intro m
      rcases e3 m with h | ⟨hm, h⟩
      · have hx : gr (x.pTimer.set a (gr x.timer n)) m = if a = m ∧ a < x.pTimer.length then gr x.timer n else gr x.pTimer m := gr_set _ _ _ _
        by_cases hc : a = m ∧ a < x.pTimer.length
        · rw [if_pos hc] at hx
          exact Or.inr ⟨hc.1 ▸ List.mem_cons_self, h.trans hx⟩
        · rw [if_neg hc] at hx
          exact Or.inl (h.trans hx)
      · exact Or.inr ⟨List.mem_cons_of_mem _ hm, h⟩
    · obtain ⟨e1, e2, e3⟩ := ih x
      refine ⟨e1, e2, ?_⟩
      intro m
      rcases e3 m with h | ⟨hm, h⟩
      · exact Or.inl h
      · exact Or.inr ⟨List.mem_cons_of_mem _ hm, h⟩

/-- generic tail of a manual control loop: timers stay bounded -/
theorem TB.loopCore {C : Cfg} (n : Nat) (s1 : St) (t1 : TB C s1) (g : St → St)
    (hg : ∀ a, TB C a → TB C (g a)) :
    TB C (checkBreakerManually C
      (if gb (if gb s1.cbOpen (C.nets.getD n default).cb && decide (gr s1.timer n ≤ 0) then { s1 with check := s1.check.set n true } else s1).check n
       then { g (checkLinesManually C (if gb s1.cbOpen (C.nets.getD n default).cb && decide (gr s1.timer n ≤ 0) then { s1 with check := s1.check.set n true } else s1) n) with
              check := (g (checkLinesManually C (if gb s1.cbOpen (C.nets.getD n default).cb && decide (gr s1.timer n ≤ 0) then { s1 with check := s1.check.set n true } else s1) n)).check.set n false }
       else (if gb s1.cbOpen (C.nets.getD n default).cb && decide (gr s1.timer n ≤ 0) then { s1 with check := s1.check.set n true } else s1)) n) := by
  set s2 : St := (if gb s1.cbOpen (C.nets.getD n default).cb && decide (gr s1.timer n ≤ 0) then { s1 with check := s1.check.set n true } else s1) with hs2
  have t2 : TB C s2 := by
    rw [hs2]; split_ifs
    · exact t1.congr rfl rfl
    · exact t1
  have hb := tm_checkBreakerManually C
      (if gb s2.check n then { g (checkLinesManually C s2 n) with check := (g (checkLinesManually C s2 n)).check.set n false } else s2) n
  refine TB.congr ?_ hb.1 hb.2
  split_ifs
  · exact (hg _ (t2.checkLines n)).congr rfl rfl
  · exact t2

theorem TB.distLoop {C : Cfg} {s : St} (w2 : WF2 C) (hT : 0 ≤ C.T) (h : TB C s) (n : Nat) (hn : n < C.nets.length) (dt : ℚ) (hdt : 0 ≤ dt) :
    TB C (distLoop C s n dt) := by
  unfold Relsad.Control.distLoop
  simp only []
  have t1 : TB C { s with timer := s.timer.set n (tick (gr s.timer n) dt) } := by
    refine ⟨by simp [h.tlen], h.plen, ?_, h.pTimer, h.dist⟩
    intro m
    show gr (s.timer.set n (tick (gr s.timer n) dt)) m ≤ C.T
    rw [gr_set]; split_ifs
    · exact tick_le (h.timer n) hT hdt
    · exact h.timer m
  refine TB.loopCore n _ t1 (fun a => (C.nets.getD n default).children.foldl (fun (s : St) m =>
        if gb s.cbOpen (C.nets.getD m default).cb then { s with pTimer := s.pTimer.set m (gr s.timer n) } else s) a) ?_
  intro a ha
  obtain ⟨e1, e2, e3⟩ := childFold_tm C n (C.nets.getD n default).children a
  refine ⟨by rw [e1]; exact ha.tlen, by rw [e2]; exact ha.plen, fun m => by rw [e1]; exact ha.timer m, ?_, ?_⟩
  · intro m
    rcases e3 m with h' | ⟨_, h'⟩
    · rw [h']; exact ha.pTimer m
    · rw [h']; exact ha.timer n
  · intro m hm
    rcases e3 m with h' | ⟨hin, _⟩
    · rw [h']; exact ha.dist m hm
    · rw [w2.children_mg n hn m hin] at hm; exact absurd hm (by simp)

theorem TB.mgLoop {C : Cfg} {s : St} (hT : 0 ≤ C.T) (h : TB C s) (n : Nat) (hmg : isMg C n = true) (dt : ℚ) (hdt : 0 ≤ dt) :
    TB C (mgLoop C s n dt) := by
  unfold Relsad.Control.mgLoop
  simp only []
  have t1 : TB C ({ s with timer := s.timer.set n (if gr s.pTimer n > tick (gr s.timer n) dt then gr s.pTimer n else tick (gr s.timer n) dt),
                           pTimer := s.pTimer.set n (tick (gr s.pTimer n) dt) } : St) := by
    refine ⟨by simp [h.tlen], by simp [h.plen], ?_, ?_, ?_⟩
    · intro m
      show gr (s.timer.set n _) m ≤ C.T
      rw [gr_set]; split_ifs
      · exact h.pTimer n
      · exact tick_le (h.timer n) hT hdt
      · exact h.timer m
    · intro m
      show gr (s.pTimer.set n _) m ≤ C.T
      rw [gr_set]; split_ifs
      · exact tick_le (h.pTimer n) hT hdt
      · exact h.pTimer m
    · intro m hm
      show gr (s.pTimer.set n _) m ≤ 0
      rw [gr_set]; split_ifs with hc
      · rw [← hc.1, hmg] at hm; exact absurd hm (by simp)
      · exact h.dist m hm
  exact TB.loopCore n _ t1 (fun a => a) (fun a ha => ha)

theorem tb_foldl {C : Cfg} {α : Type} (f : St → α → St) (l : List α) (P : α → Prop) (hP : ∀ a ∈ l, P a)
    (hf : ∀ s a, P a → TB C s → TB C (f s a)) (s : St) (h : TB C s) : TB C (l.foldl f s) := by
  induction l generalizing s with
  | nil => exact h
  | cons a as ih =>
    simp only [List.foldl_cons]
    exact ih (fun x hx => hP x (List.mem_cons_of_mem _ hx)) _ (hf s a (hP a List.mem_cons_self) h)

theorem TB.step {C : Cfg} {s : St} (w2 : WF2 C) (hT : 0 ≤ C.T) (h : TB C s) (dt : ℚ) (hdt : 0 ≤ dt) : TB C (step C s dt) := by
  unfold Relsad.Control.step
  simp only []
  refine tb_foldl _ _ (fun n => isMg C n = true) ?_ (fun s' n hn h' => h'.mgLoop hT n hn dt hdt) _ ?_
  · intro n hn; exact (List.mem_filter.mp hn).2
  refine tb_foldl _ _ (fun n => n < C.nets.length) ?_ (fun s' n hn h' => h'.distLoop w2 hT n hn dt hdt) _ ?_
  · intro n hn; exact List.mem_range.mp (List.mem_filter.mp hn).1
  exact tb_foldl _ _ (fun _ => True) (fun _ _ => trivial)
    (fun s' l _ h' => h'.congr (tm_lineUpdate C s' l dt).1 (tm_lineUpdate C s' l dt).2) _ h

theorem TB.afterFail {C : Cfg} {s : St} (h : TB C s) (l : Nat) (rep : ℚ) : TB C (lineFail C s l rep) :=
  h.congr (tm_lineFail C s l rep).1 (tm_lineFail C s l rep).2

/-! ### a network is flagged only while one of its lines is failed -/

structure NF (C : Cfg) (s : St) : Prop where
  nflen : s.netFailed.length = C.nets.length
  flen : s.failed.length = C.lines.length
  why : ∀ n, n < C.nets.length → gb s.netFailed n = true → ∃ l ∈ (netOf C n).lines, gb s.failed l = true

theorem NF.init (C : Cfg) : NF C (St.init C) := by
  refine ⟨by simp [St.init], by simp [St.init], ?_⟩
  intro n _ h
  rw [show gb (St.init C).netFailed n = false from gb_map_const _ _] at h; exact absurd h (by simp)

theorem NF.congr {C : Cfg} {s s' : St} (h : NF C s) (hf : s'.failed = s.failed) (hn : s'.netFailed = s.netFailed) : NF C s' :=
  ⟨by rw [hn]; exact h.nflen, by rw [hf]; exact h.flen, fun n hn' hx => by rw [hn] at hx; rw [hf]; exact h.why n hn' hx⟩

theorem lineFail_nf (C : Cfg) (s : St) (l : Nat) (rep : ℚ) :
    (lineFail C s l rep).netFailed = s.netFailed.set (C.lines.getD l default).net true ∧ (lineFail C s l rep).failed = s.failed.set l true := by
  unfold lineFail
  simp only
  split_ifs
  · have h1 := nf_cbOpenOp C { s with failed := s.failed.set l true, netFailed := s.netFailed.set (C.lines.getD l default).net true, rem := s.rem.set l rep }
      (C.nets.getD (C.lines.getD l default).net default).cb
    have h2 := nf_foldl_eq (fun s m => cbOpenOp C s (C.nets.getD m default).cb) (fun s' m => nf_cbOpenOp C s' _)
      (C.nets.getD (C.lines.getD l default).net default).children
      (cbOpenOp C { s with failed := s.failed.set l true, netFailed := s.netFailed.set (C.lines.getD l default).net true, rem := s.rem.set l rep }
        (C.nets.getD (C.lines.getD l default).net default).cb)
    exact ⟨h2.1.trans h1.1, h2.2.trans h1.2⟩
  · exact ⟨rfl, rfl⟩

theorem NF.afterFail {C : Cfg} {s : St} (w : WF C) (h : NF C s) (l : Nat) (hl : l < C.lines.length) (rep : ℚ) :
    NF C (lineFail C s l rep) := by
  obtain ⟨e1, e2⟩ := lineFail_nf C s l rep
  refine ⟨by rw [e1]; simp [h.nflen], by rw [e2]; simp [h.flen], ?_⟩
  intro n hn hx
  rw [e2]
  have hfl : gb (s.failed.set l true) l = true := gb_set_self _ _ _ (by rw [h.flen]; exact hl)
  by_cases hnn : (C.lines.getD l default).net = n
  · exact ⟨l, hnn ▸ w.line_mem_net l hl, hfl⟩
  · rw [e1, gb_set_ne _ _ _ _ hnn] at hx
    obtain ⟨i, hi, hfi⟩ := h.why n hn hx
    refine ⟨i, hi, ?_⟩
    rw [gb_set]; split_ifs
    · rfl
    · exact hfi

/-- in a duplicate-free list, a marked element that is not the only marked one has a marked companion -/
theorem other_marked (L : List Nat) (p : Nat → Bool) (hnd : L.Nodup) (l : Nat) (hl : l ∈ L) (hp : p l = true)
    (hne : (L.filter p).length ≠ 1) : ∃ i ∈ L, i ≠ l ∧ p i = true := by
  by_contra hcon
  have hall : ∀ i ∈ L.filter p, i = l := by
    intro i hi
    by_contra hil
    exact hcon ⟨i, (List.mem_filter.mp hi).1, hil, (List.mem_filter.mp hi).2⟩
  have hsub : L.filter p ⊆ [l] := fun i hi => by rw [hall i hi]; exact List.mem_singleton.mpr rfl
  have h1 : (L.filter p).length ≤ 1 := List.Nodup.length_le_of_subset (hnd.filter p) hsub
  have h2 : 0 < (L.filter p).length := List.length_pos_of_mem (List.mem_filter.mpr ⟨hl, hp⟩)
  omega

theorem NF.afterUpdate {C : Cfg} {s : St} (w : WF C) (w2 : WF2 C) (h : NF C s) (l : Nat) (hl : l < C.lines.length) (dt : ℚ) :
    NF C (lineUpdate C s l dt) := by
  have hn0 : (C.lines.getD l default).net < C.nets.length := w.line_net l hl
  have nf : ∀ x : St, NF C x → NF C (lineNotFail C x l) := by
    intro x hx
    unfold lineNotFail
    simp only
    split_ifs with hc
    · simp only [Bool.and_eq_true, beq_iff_eq] at hc
      refine ⟨by simp [hx.nflen], by simp [hx.flen], ?_⟩
      intro n hn hfn
      change gb (x.netFailed.set (C.lines.getD l default).net false) n = true at hfn
      have hnn : (C.lines.getD l default).net ≠ n := by
        intro e
        rw [e, gb_set_self _ _ _ (by rw [hx.nflen]; exact hn)] at hfn; exact absurd hfn (by simp)
      rw [gb_set_ne _ _ _ _ hnn] at hfn
      obtain ⟨i, hi, hfi⟩ := hx.why n hn hfn
      refine ⟨i, hi, ?_⟩
      have hil : l ≠ i := by
        intro e
        have := (w.net_lines n hn i hi).2
        rw [← e] at this; exact hnn this
      show gb (x.failed.set l false) i = true
      rw [gb_set_ne _ _ _ _ hil]; exact hfi
    · refine ⟨hx.nflen, by simp [hx.flen], ?_⟩
      intro n hn hfn
      obtain ⟨i, hi, hfi⟩ := hx.why n hn hfn
      by_cases hil : l = i
      · -- the repaired line was the witness: it is not the only failed line of its network
        subst hil
        have hnet : (C.lines.getD l default).net = n := (w.net_lines n hn l hi).2
        have hne : ((C.nets.getD (C.lines.getD l default).net default).lines.filter (fun k => gb x.failed k)).length ≠ 1 := by
          intro e
          apply hc
          simp only [Bool.and_eq_true, beq_iff_eq]
          exact ⟨e, hfi⟩
        rw [hnet] at hne
        obtain ⟨j, hj, hjl, hfj⟩ := other_marked (netOf C n).lines (fun k => gb x.failed k) (w2.lines_nodup n hn) l hi hfi hne
        refine ⟨j, hj, ?_⟩
        show gb (x.failed.set l false) j = true
        rw [gb_set_ne _ _ _ _ (fun e => hjl e.symm)]; exact hfj
      · refine ⟨i, hi, ?_⟩
        show gb (x.failed.set l false) i = true
        rw [gb_set_ne _ _ _ _ hil]; exact hfi
  unfold lineUpdate
  simp only []
  split_ifs
  · have h1 : NF C ({ s with rem := s.rem.set l (gr s.rem l - dt) } : St) := h.congr rfl rfl
    exact (nf _ h1).congr rfl rfl
  · exact h.congr rfl rfl
  · exact nf s h

theorem nfI_foldl {C : Cfg} {α : Type} (f : St → α → St) (l : List α)
    (hf : ∀ s a, (f s a).netFailed = s.netFailed ∧ (f s a).failed = s.failed) (s : St) (h : NF C s) : NF C (l.foldl f s) := by
  have := nf_foldl_eq f hf l s
  exact h.congr this.2 this.1

theorem NF.step {C : Cfg} {s : St} (w : WF C) (w2 : WF2 C) (h : NF C s) (dt : ℚ) : NF C (step C s dt) := by
  unfold Relsad.Control.step
  simp only []
  refine nfI_foldl _ _ (fun s' n => nf_mgLoop C s' n dt) _ ?_
  refine nfI_foldl _ _ (fun s' n => nf_distLoop C s' n dt) _ ?_
  have key : ∀ (ls : List Nat) (x : St), (∀ l ∈ ls, l < C.lines.length) → NF C x → NF C (ls.foldl (fun s l => lineUpdate C s l dt) x) := by
    intro ls
    induction ls with
    | nil => intro x _ hx; exact hx
    | cons a as ih =>
      intro x hin hx
      simp only [List.foldl_cons]
      exact ih _ (fun l hl => hin l (List.mem_cons_of_mem _ hl)) (hx.afterUpdate w w2 a (hin a List.mem_cons_self) dt)
  exact key _ s (fun l hl => List.mem_range.mp hl) h

/-! ### calm states -/

/-- nothing failed, every section in service, nothing listed, no network flagged, no check pending -/
structure Calm (C : Cfg) (x : St) : Prop where
  nofail : ∀ l, l < C.lines.length → gb x.failed l = false
  secs : ∀ k, k < C.secs.length → gb x.secConn k = true
  nofs : ∀ n, n < C.nets.length → x.failedSecs.getD n [] = []
  nonf : ∀ n, gb x.netFailed n = false
  chk : ∀ n, n < C.nets.length → gb x.check n = false
  tlen : x.timer.length = C.nets.length
  plen : x.pTimer.length = C.nets.length
  sz : Sz C x

theorem foldl_fixed {α : Type} (f : St → α → St) (l : List α) (s : St) (h : ∀ a ∈ l, f s a = s) : l.foldl f s = s := by
  induction l with
  | nil => rfl
  | cons a as ih =>
    simp only [List.foldl_cons]
    rw [h a List.mem_cons_self]
    exact ih (fun b hb => h b (List.mem_cons_of_mem _ hb))

/-- the line check of a calm state does nothing -/
theorem checkLines_calm {C : Cfg} (w : WF C) (n : Nat) (hn : n < C.nets.length) (x : St)
    (hnf : ∀ l, l < C.lines.length → gb x.failed l = false) (hsec : ∀ k, k < C.secs.length → gb x.secConn k = true) :
    checkLinesManually C x n = x := by
  rw [checkLinesManually_eq]
  have h1 : ((netOf C n).secs.filter (fun k => gb x.secConn k)).foldl (flagStep C n) x = x := by
    apply foldl_fixed
    intro k hk
    have hk' := (List.mem_filter.mp hk).1
    have : anyFailed x (secOf C k).lines = false :=
      (anyFailed_false_iff C x k).mpr (fun l hl => hnf l (w.sec_lines n hn k hk' l hl).1)
    unfold flagStep
    simp only
    rw [show C.secs.getD k default = secOf C k from rfl, this]
    simp
  rw [h1]
  have h2 : (netOf C n).secs.filter (fun k => !gb x.secConn k) = [] := by
    rw [List.filter_eq_nil_iff]
    intro k hk
    rw [hsec k (w.sec_lt n hn k hk)]; simp
  rw [h2]; rfl

/-- a breaker check that finds the breaker open, no hold, the timer run out, nothing listed and the own line healthy recloses -/
theorem checkBreaker_recloses (C : Cfg) (x : St) (n : Nat) (ho : gb x.cbOpen (C.nets.getD n default).cb = true)
    (hh : survivalHold C x n = false) (ht : gr x.timer n ≤ 0) (hfs : x.failedSecs.getD n [] = [])
    (hf : gb x.failed (C.nets.getD n default).connLine = false) :
    checkBreakerManually C x n =
      { secConnectManually C (cbCloseOp C x (C.nets.getD n default).cb) (C.lines.getD (C.nets.getD n default).connLine default).sec with
        failedSecs := (secConnectManually C (cbCloseOp C x (C.nets.getD n default).cb) (C.lines.getD (C.nets.getD n default).connLine default).sec).failedSecs.set n [] } := by
  unfold checkBreakerManually
  simp only [ho, hh, hfs, List.foldl_nil, List.any_nil, hf, Bool.not_true, Bool.false_eq_true, if_false, Bool.not_false, Bool.and_self, if_true, ht]

theorem checkBreaker_noop (C : Cfg) (x : St) (n : Nat)
    (h : gb x.cbOpen (C.nets.getD n default).cb = false ∨ 0 < gr x.timer n) : checkBreakerManually C x n = x := by
  unfold checkBreakerManually
  simp only
  rcases h with h | h
  · rw [h]; simp
  · split_ifs
    · rfl
    · rfl
    · linarith
    · linarith
    · rfl

theorem calm_nohold {C : Cfg} {x : St} (hc : Calm C x) (n : Nat) : survivalHold C x n = false := by
  unfold survivalHold
  split
  · exact hc.nonf _
  · rfl

/-- reclosing on a calm state -/
theorem calm_reclose {C : Cfg} (w : WF C) (n : Nat) (hn : n < C.nets.length) (x : St) (hc : Calm C x)
    (ho : gb x.cbOpen (C.nets.getD n default).cb = true) (ht : gr x.timer n ≤ 0) :
    let r := checkBreakerManually C x n
    Calm C r ∧ r.timer = x.timer ∧ r.pTimer = x.pTimer ∧ r.cbOpen = x.cbOpen.set (C.nets.getD n default).cb false := by
  intro r
  have hr : r = checkBreakerManually C x n := rfl
  rw [checkBreaker_recloses C x n ho (calm_nohold hc n) ht (hc.nofs n hn) (hc.nofail _ (w.conn_lt n hn))] at hr
  set y := cbCloseOp C x (C.nets.getD n default).cb with hy
  set k0 := (C.lines.getD (C.nets.getD n default).connLine default).sec with hk0
  set z := secConnectManually C y k0 with hz
  have cy := cbCloseOp_conn w x n hn
  have cz := secConnectManually_conn C y k0
  have szy : Sz C y := (sameLen_cbCloseOp C x _).sz hc.sz
  have szz : Sz C z := (sameLen_secConnectManually C y k0).sz szy
  have hsecz : z.secConn = x.secConn.set k0 true := by
    rw [cz.secConn]; show y.secConn.set k0 true = _; rw [show y.secConn = x.secConn from cy.secConn]
  have hfsz : z.failedSecs = x.failedSecs := cz.failedSecs.trans cy.failedSecs
  have hfz : z.failed = x.failed := (nf_secConnectManually C y k0).2.trans (nf_cbCloseOp C x _).2
  have hnz : z.netFailed = x.netFailed := (nf_secConnectManually C y k0).1.trans (nf_cbCloseOp C x _).1
  have hcz : z.check = x.check := (check_secConnectManually C y k0).trans (check_cbCloseOp C x _)
  have htz := (tm_secConnectManually C y k0).1.trans (tm_cbCloseOp C x _).1
  have hpz := (tm_secConnectManually C y k0).2.trans (tm_cbCloseOp C x _).2
  have hbz : z.cbOpen = x.cbOpen.set (C.nets.getD n default).cb false := by
    rw [cz.cbOpen]; exact cy.cbOpen
  rw [hr]
  refine ⟨⟨?_, ?_, ?_, ?_, ?_, ?_, ?_, ?_⟩, htz, hpz, hbz⟩
  · intro l hl; show gb z.failed l = false; rw [hfz]; exact hc.nofail l hl
  · intro k hk
    show gb z.secConn k = true
    rw [hsecz, gb_set]; split_ifs
    · rfl
    · exact hc.secs k hk
  · intro m hm
    show (z.failedSecs.set n []).getD m [] = []
    by_cases hmn : n = m
    · subst hmn; exact getD_set_self _ _ _ _ (by rw [szz.failedSecs]; exact hn)
    · rw [getD_set_ne _ _ _ _ _ hmn, hfsz]; exact hc.nofs m hm
  · intro m; show gb z.netFailed m = false; rw [hnz]; exact hc.nonf m
  · intro m hm; show gb z.check m = false; rw [hcz]; exact hc.chk m hm
  · show z.timer.length = _; rw [htz]; exact hc.tlen
  · show z.pTimer.length = _; rw [hpz]; exact hc.plen
  · exact ⟨szz.conn, szz.secConn, szz.cbOpen, szz.check, by show (z.failedSecs.set n []).length = _; simp [szz.failedSecs]⟩

/-- generic tail of a manual control loop on a calm state -/
theorem calm_core {C : Cfg} (w : WF C) (n : Nat) (hn : n < C.nets.length) (s1 : St) (hc : Calm C s1) (chk : St → St)
    (hchk : ∀ a, (∀ l, l < C.lines.length → gb a.failed l = false) → (∀ k, k < C.secs.length → gb a.secConn k = true) → chk a = a)
    (g : St → St)
    (hg : ∀ a, g a = { a with pTimer := (g a).pTimer }) (hgl : ∀ a, (g a).pTimer.length = a.pTimer.length) :
    let r := checkBreakerManually C
      (if gb (if gb s1.cbOpen (C.nets.getD n default).cb && decide (gr s1.timer n ≤ 0) then { s1 with check := s1.check.set n true } else s1).check n
       then { g (chk (if gb s1.cbOpen (C.nets.getD n default).cb && decide (gr s1.timer n ≤ 0) then { s1 with check := s1.check.set n true } else s1)) with
              check := (g (chk (if gb s1.cbOpen (C.nets.getD n default).cb && decide (gr s1.timer n ≤ 0) then { s1 with check := s1.check.set n true } else s1))).check.set n false }
       else (if gb s1.cbOpen (C.nets.getD n default).cb && decide (gr s1.timer n ≤ 0) then { s1 with check := s1.check.set n true } else s1)) n
    Calm C r ∧ r.timer = s1.timer ∧
    (gb s1.cbOpen (C.nets.getD n default).cb = true → gr s1.timer n ≤ 0 →
      r.pTimer = (g { s1 with check := s1.check.set n true }).pTimer ∧ r.cbOpen = s1.cbOpen.set (C.nets.getD n default).cb false) ∧
    (¬ (gb s1.cbOpen (C.nets.getD n default).cb = true ∧ gr s1.timer n ≤ 0) → r = s1) := by
  intro r
  have hr : r = checkBreakerManually C
      (if gb (if gb s1.cbOpen (C.nets.getD n default).cb && decide (gr s1.timer n ≤ 0) then { s1 with check := s1.check.set n true } else s1).check n
       then { g (chk (if gb s1.cbOpen (C.nets.getD n default).cb && decide (gr s1.timer n ≤ 0) then { s1 with check := s1.check.set n true } else s1)) with
              check := (g (chk (if gb s1.cbOpen (C.nets.getD n default).cb && decide (gr s1.timer n ≤ 0) then { s1 with check := s1.check.set n true } else s1))).check.set n false }
       else (if gb s1.cbOpen (C.nets.getD n default).cb && decide (gr s1.timer n ≤ 0) then { s1 with check := s1.check.set n true } else s1)) n := rfl
  by_cases hcond : gb s1.cbOpen (C.nets.getD n default).cb = true ∧ gr s1.timer n ≤ 0
  · have hif : (gb s1.cbOpen (C.nets.getD n default).cb && decide (gr s1.timer n ≤ 0)) = true := by
      rw [hcond.1, Bool.true_and, decide_eq_true_eq]; exact hcond.2
    rw [hif] at hr
    simp only [if_true] at hr
    set s2 : St := { s1 with check := s1.check.set n true } with hs2
    have hck : gb s2.check n = true := gb_set_self _ _ _ (by rw [hc.sz.check]; exact hn)
    rw [hck] at hr
    simp only [if_true] at hr
    rw [hchk s2 hc.nofail hc.secs] at hr
    set s3 : St := { g s2 with check := (g s2).check.set n false } with hs3
    have hgs := hg s2
    have e3 : s3 = { s1 with pTimer := (g s2).pTimer, check := (s1.check.set n true).set n false } := by
      rw [hs3, hgs]
    have c3 : Calm C s3 := by
      rw [e3]
      refine ⟨hc.nofail, hc.secs, hc.nofs, hc.nonf, ?_, hc.tlen, by show (g s2).pTimer.length = _; rw [hgl]; exact hc.plen,
        ⟨hc.sz.conn, hc.sz.secConn, hc.sz.cbOpen, by simp [hc.sz.check], hc.sz.failedSecs⟩⟩
      intro m hm
      show gb ((s1.check.set n true).set n false) m = false
      rw [gb_set]; split_ifs
      · rfl
      · rename_i hne
        rw [gb_set]; split_ifs with h2
        · exfalso; exact hne ⟨h2.1, by simp [h2.2]⟩
        · exact hc.chk m hm
    have ho3 : gb s3.cbOpen (C.nets.getD n default).cb = true := by rw [e3]; exact hcond.1
    have ht3 : gr s3.timer n ≤ 0 := by rw [e3]; exact hcond.2
    obtain ⟨k1, k2, k3, k4⟩ := calm_reclose w n hn s3 c3 ho3 ht3
    rw [← hr] at k1 k2 k3 k4
    refine ⟨k1, by rw [k2, e3], fun _ _ => ⟨by rw [k3, e3], by rw [k4, e3]⟩, fun hne => absurd hcond hne⟩
  · have hif : (gb s1.cbOpen (C.nets.getD n default).cb && decide (gr s1.timer n ≤ 0)) = false := by
      cases hx : gb s1.cbOpen (C.nets.getD n default).cb
      · simp
      · simp only [Bool.true_and, decide_eq_false_iff_not]
        intro ht; exact hcond ⟨hx, ht⟩
    rw [hif] at hr
    simp only [Bool.false_eq_true, if_false] at hr
    rw [hc.chk n hn] at hr
    simp only [Bool.false_eq_true, if_false] at hr
    have : r = s1 := by
      rw [hr]
      apply checkBreaker_noop
      cases hx : gb s1.cbOpen (C.nets.getD n default).cb
      · exact Or.inl rfl
      · right
        by_contra hle
        exact hcond ⟨hx, not_lt.mp hle⟩
    refine ⟨by rw [this]; exact hc, by rw [this], fun h1 h2 => absurd ⟨h1, h2⟩ hcond, fun _ => this⟩

/-! ### the control loops on a calm state -/

theorem childFold_shape (C : Cfg) (n : Nat) (ms : List Nat) (x : St) :
    let r := ms.foldl (fun (s : St) m => if gb s.cbOpen (C.nets.getD m default).cb then { s with pTimer := s.pTimer.set m (gr s.timer n) } else s) x
    r = { x with pTimer := r.pTimer } := by
  induction ms generalizing x with
  | nil => rfl
  | cons a as ih =>
    simp only [List.foldl_cons]
    split_ifs
    · have := ih { x with pTimer := x.pTimer.set a (gr x.timer n) }
      simp only at this
      rw [this]
    · exact ih x

/-- who may still be open after a loop of network `n` whose timer value is `t` -/
def OpenAfter (C : Cfg) (x r : St) (n : Nat) (t : ℚ) : Prop :=
  ∀ c, gb r.cbOpen c = true → gb x.cbOpen c = true ∧ (c = (netOf C n).cb → 0 < t)

theorem openAfter_of {C : Cfg} (w : WF C) (n : Nat) (hn : n < C.nets.length) (x s1 r : St) (t : ℚ) (hsz : Sz C x)
    (hcb : s1.cbOpen = x.cbOpen) (ht : gr s1.timer n = t)
    (h1 : gb s1.cbOpen (C.nets.getD n default).cb = true → gr s1.timer n ≤ 0 → r.cbOpen = s1.cbOpen.set (C.nets.getD n default).cb false)
    (h2 : ¬ (gb s1.cbOpen (C.nets.getD n default).cb = true ∧ gr s1.timer n ≤ 0) → r = s1) : OpenAfter C x r n t := by
  intro c hc
  by_cases hcond : gb s1.cbOpen (C.nets.getD n default).cb = true ∧ gr s1.timer n ≤ 0
  · rw [h1 hcond.1 hcond.2, hcb] at hc
    obtain ⟨ho, hne⟩ := gb_set_true_imp _ _ _ hc
    refine ⟨ho, fun e => ?_⟩
    exfalso
    rcases hne with h | h
    · exact h e.symm
    · exact h (by rw [hsz.cbOpen]; exact w.cb_lt n hn)
  · rw [h2 hcond, hcb] at hc
    refine ⟨hc, fun e => ?_⟩
    by_contra hle
    apply hcond
    rw [hcb, ht]
    exact ⟨by rw [show (C.nets.getD n default).cb = (netOf C n).cb from rfl, ← e]; exact hc, not_lt.mp hle⟩

theorem distLoop_calm {C : Cfg} (w : WF C) (n : Nat) (hn : n < C.nets.length) (x : St) (hc : Calm C x) (dt : ℚ) :
    let r := distLoop C x n dt
    let t := tick (gr x.timer n) dt
    Calm C r ∧ r.timer = x.timer.set n t ∧
    (∀ m, gr r.pTimer m = gr x.pTimer m ∨ (t ≤ 0 ∧ gr r.pTimer m = t)) ∧ OpenAfter C x r n t := by
  intro r t
  have hr : r = distLoop C x n dt := rfl
  unfold Relsad.Control.distLoop at hr
  simp only [] at hr
  set s1 : St := { x with timer := x.timer.set n (tick (gr x.timer n) dt) } with hs1
  have c1 : Calm C s1 := ⟨hc.nofail, hc.secs, hc.nofs, hc.nonf, hc.chk, by simp [hs1, hc.tlen], hc.plen, ⟨hc.sz.conn, hc.sz.secConn, hc.sz.cbOpen, hc.sz.check, hc.sz.failedSecs⟩⟩
  have ht1 : gr s1.timer n = t := gr_set_self _ _ _ (by rw [hc.tlen]; exact hn)
  obtain ⟨k1, k2, k3, k4⟩ := calm_core w n hn s1 c1 (fun a => checkLinesManually C a n) (fun a h1 h2 => checkLines_calm w n hn a h1 h2)
    (fun a => (C.nets.getD n default).children.foldl (fun (s : St) m =>
        if gb s.cbOpen (C.nets.getD m default).cb then { s with pTimer := s.pTimer.set m (gr s.timer n) } else s) a)
    (fun a => childFold_shape C n _ a) (fun a => (childFold_tm C n _ a).2.1)
  rw [← hr] at k1 k2 k3 k4
  refine ⟨k1, k2, ?_, openAfter_of w n hn x s1 r t hc.sz rfl ht1 (fun a b => (k3 a b).2) k4⟩
  intro m
  by_cases hcond : gb s1.cbOpen (C.nets.getD n default).cb = true ∧ gr s1.timer n ≤ 0
  · rw [(k3 hcond.1 hcond.2).1]
    rcases (childFold_tm C n (C.nets.getD n default).children { s1 with check := s1.check.set n true }).2.2 m with h | ⟨_, h⟩
    · exact Or.inl h
    · right
      rw [h]
      exact ⟨by rw [← ht1]; exact hcond.2, ht1⟩
  · rw [k4 hcond]; exact Or.inl rfl

theorem mgLoop_calm {C : Cfg} (w : WF C) (n : Nat) (hn : n < C.nets.length) (x : St) (hc : Calm C x) (dt : ℚ) :
    let r := mgLoop C x n dt
    let t := if gr x.pTimer n > tick (gr x.timer n) dt then gr x.pTimer n else tick (gr x.timer n) dt
    Calm C r ∧ r.timer = x.timer.set n t ∧ r.pTimer = x.pTimer.set n (tick (gr x.pTimer n) dt) ∧ OpenAfter C x r n t := by
  intro r t
  have hr : r = mgLoop C x n dt := rfl
  unfold Relsad.Control.mgLoop at hr
  simp only [] at hr
  set s1 : St := { x with timer := x.timer.set n t, pTimer := x.pTimer.set n (tick (gr x.pTimer n) dt) } with hs1
  have c1 : Calm C s1 := ⟨hc.nofail, hc.secs, hc.nofs, hc.nonf, hc.chk, by simp [hs1, hc.tlen], by simp [hs1, hc.plen], ⟨hc.sz.conn, hc.sz.secConn, hc.sz.cbOpen, hc.sz.check, hc.sz.failedSecs⟩⟩
  have ht1 : gr s1.timer n = t := gr_set_self _ _ _ (by rw [hc.tlen]; exact hn)
  obtain ⟨k1, k2, k3, k4⟩ := calm_core w n hn s1 c1 (fun a => checkLinesManually C a n) (fun a h1 h2 => checkLines_calm w n hn a h1 h2) (fun a => a) (fun a => rfl) (fun a => rfl)
  rw [← hr] at k1 k2 k3 k4
  refine ⟨k1, k2, ?_, openAfter_of w n hn x s1 r t hc.sz rfl ht1 (fun a b => (k3 a b).2) k4⟩
  by_cases hcond : gb s1.cbOpen (C.nets.getD n default).cb = true ∧ gr s1.timer n ≤ 0
  · rw [(k3 hcond.1 hcond.2).1]
  · rw [k4 hcond]

/-- the sensor check of a calm state does nothing -/
theorem checkSensors_calm {C : Cfg} (w : WF C) (n : Nat) (hn : n < C.nets.length) (cm : Comm) (x : St)
    (hnf : ∀ l, l < C.lines.length → gb x.failed l = false) (hsec : ∀ k, k < C.secs.length → gb x.secConn k = true) :
    checkSensors C x n cm = x := by
  rw [checkSensors_eq]
  have h1 : ((netOf C n).secs.filter (fun k => gb x.secConn k)).foldl (flagStepA C n cm) x = x := by
    apply foldl_fixed
    intro k hk
    have hk' := (List.mem_filter.mp hk).1
    have : anyFailed x (secOf C k).lines = false :=
      (anyFailed_false_iff C x k).mpr (fun l hl => hnf l (w.sec_lines n hn k hk' l hl).1)
    unfold flagStepA
    simp only
    rw [show C.secs.getD k default = secOf C k from rfl, this]
    simp
  rw [h1]
  have h2 : (netOf C n).secs.filter (fun k => !gb x.secConn k) = [] := by
    rw [List.filter_eq_nil_iff]
    intro k hk
    rw [hsec k (w.sec_lt n hn k hk)]; simp
  rw [h2]; rfl

theorem distLoopA_calm {C : Cfg} (w : WF C) (n : Nat) (hn : n < C.nets.length) (x : St) (hc : Calm C x) (dt : ℚ) (cm : Comm) :
    let r := distLoopA C x n dt cm
    let t := tick (gr x.timer n) dt
    Calm C r ∧ r.timer = x.timer.set n t ∧
    (∀ m, gr r.pTimer m = gr x.pTimer m ∨ (t ≤ 0 ∧ gr r.pTimer m = t)) ∧ OpenAfter C x r n t := by
  intro r t
  have hr : r = distLoopA C x n dt cm := rfl
  unfold Relsad.Control.distLoopA at hr
  simp only [] at hr
  set s1 : St := { x with timer := x.timer.set n (tick (gr x.timer n) dt) } with hs1
  have c1 : Calm C s1 := ⟨hc.nofail, hc.secs, hc.nofs, hc.nonf, hc.chk, by simp [hs1, hc.tlen], hc.plen, ⟨hc.sz.conn, hc.sz.secConn, hc.sz.cbOpen, hc.sz.check, hc.sz.failedSecs⟩⟩
  have ht1 : gr s1.timer n = t := gr_set_self _ _ _ (by rw [hc.tlen]; exact hn)
  obtain ⟨k1, k2, k3, k4⟩ := calm_core w n hn s1 c1 (fun a => checkSensors C a n cm) (fun a h1 h2 => checkSensors_calm w n hn cm a h1 h2)
    (fun a => (C.nets.getD n default).children.foldl (fun (s : St) m =>
        if gb s.cbOpen (C.nets.getD m default).cb then { s with pTimer := s.pTimer.set m (gr s.timer n) } else s) a)
    (fun a => childFold_shape C n _ a) (fun a => (childFold_tm C n _ a).2.1)
  rw [← hr] at k1 k2 k3 k4
  refine ⟨k1, k2, ?_, openAfter_of w n hn x s1 r t hc.sz rfl ht1 (fun a b => (k3 a b).2) k4⟩
  intro m
  by_cases hcond : gb s1.cbOpen (C.nets.getD n default).cb = true ∧ gr s1.timer n ≤ 0
  · rw [(k3 hcond.1 hcond.2).1]
    rcases (childFold_tm C n (C.nets.getD n default).children { s1 with check := s1.check.set n true }).2.2 m with h | ⟨_, h⟩
    · exact Or.inl h
    · right
      rw [h]
      exact ⟨by rw [← ht1]; exact hcond.2, ht1⟩
  · rw [k4 hcond]; exact Or.inl rfl

theorem mgLoopA_calm {C : Cfg} (w : WF C) (n : Nat) (hn : n < C.nets.length) (x : St) (hc : Calm C x) (dt : ℚ) (cm : Comm) :
    let r := mgLoopA C x n dt cm
    let t := if gr x.pTimer n > tick (gr x.timer n) dt then gr x.pTimer n else tick (gr x.timer n) dt
    Calm C r ∧ r.timer = x.timer.set n t ∧ r.pTimer = x.pTimer.set n (tick (gr x.pTimer n) dt) ∧ OpenAfter C x r n t := by
  intro r t
  have hr : r = mgLoopA C x n dt cm := rfl
  unfold Relsad.Control.mgLoopA at hr
  simp only [] at hr
  set s1 : St := { x with timer := x.timer.set n t, pTimer := x.pTimer.set n (tick (gr x.pTimer n) dt) } with hs1
  have c1 : Calm C s1 := ⟨hc.nofail, hc.secs, hc.nofs, hc.nonf, hc.chk, by simp [hs1, hc.tlen], by simp [hs1, hc.plen], ⟨hc.sz.conn, hc.sz.secConn, hc.sz.cbOpen, hc.sz.check, hc.sz.failedSecs⟩⟩
  have ht1 : gr s1.timer n = t := gr_set_self _ _ _ (by rw [hc.tlen]; exact hn)
  obtain ⟨k1, k2, k3, k4⟩ := calm_core w n hn s1 c1 (fun a => checkSensors C a n cm) (fun a h1 h2 => checkSensors_calm w n hn cm a h1 h2) (fun a => a) (fun a => rfl) (fun a => rfl)
  rw [← hr] at k1 k2 k3 k4
  refine ⟨k1, k2, ?_, openAfter_of w n hn x s1 r t hc.sz rfl ht1 (fun a b => (k3 a b).2) k4⟩
  by_cases hcond : gb s1.cbOpen (C.nets.getD n default).cb = true ∧ gr s1.timer n ≤ 0
  · rw [(k3 hcond.1 hcond.2).1]
  · rw [k4 hcond]

theorem lineUpdate_calm (C : Cfg) (x : St) (l : Nat) (dt : ℚ) (hf : gb x.failed l = false) :
    lineUpdate C x l dt = { x with failed := x.failed.set l false } := by
  unfold lineUpdate
  rw [hf]
  simp only [Bool.false_eq_true, if_false]
  unfold lineNotFail
  simp only
  rw [hf]
  simp

theorem Calm.lineUpdates {C : Cfg} (dt : ℚ) (ls : List Nat) (hls : ∀ l ∈ ls, l < C.lines.length) (x : St) (hc : Calm C x) :
    let r := ls.foldl (fun s l => lineUpdate C s l dt) x
    Calm C r ∧ r.timer = x.timer ∧ r.pTimer = x.pTimer ∧ r.cbOpen = x.cbOpen := by
  induction ls generalizing x with
  | nil => exact ⟨hc, rfl, rfl, rfl⟩
  | cons a as ih =>
    simp only [List.foldl_cons]
    have ha := hls a List.mem_cons_self
    rw [lineUpdate_calm C x a dt (hc.nofail a ha)]
    have c1 : Calm C { x with failed := x.failed.set a false } := by
      refine ⟨?_, hc.secs, hc.nofs, hc.nonf, hc.chk, hc.tlen, hc.plen, ⟨hc.sz.conn, hc.sz.secConn, hc.sz.cbOpen, hc.sz.check, hc.sz.failedSecs⟩⟩
      intro l hl
      show gb (x.failed.set a false) l = false
      rw [gb_set]; split_ifs
      · rfl
      · exact hc.nofail l hl
    exact ih (fun l hl => hls l (List.mem_cons_of_mem _ hl)) _ c1

/-! ### one calm increment: timers run down, breakers whose timer has run out reclose -/

/-- `P` bounds the parent timers, `B` the timers -/
def Bd (x : St) (P B : ℚ) : Prop := ∀ m, gr x.pTimer m ≤ P ∧ gr x.timer m ≤ B

/-- parent timers of networks that are not microgrids are not running -/
def NM (C : Cfg) (x : St) : Prop := ∀ m, isMg C m = false → gr x.pTimer m ≤ 0

structure Run (C : Cfg) (x : St) (P B : ℚ) : Prop where
  calm : Calm C x
  nm : NM C x
  bd : Bd x P B

/-- after its loop: the timer of `n` is below the new bound and, when all timers had run out, its breaker is closed -/
def GoodD (C : Cfg) (B B' : ℚ) (y : St) (n : Nat) : Prop :=
  gr y.timer n ≤ B' ∧ (B ≤ 0 → gb y.cbOpen (netOf C n).cb = false)

theorem tick_le' {t dt P B : ℚ} (ht : t ≤ B) (hP : 0 ≤ P) : tick t dt ≤ max P (B - dt) := by
  unfold tick; split_ifs
  · exact le_trans (by linarith) (le_max_right _ _)
  · exact le_trans hP (le_max_left _ _)

theorem tick_nonpos {t dt : ℚ} (ht : t ≤ 0) : tick t dt = 0 := by
  unfold tick; rw [if_neg (not_lt.mpr ht)]

theorem run_foldl {C : Cfg} (f : St → Nat → St) (I : St → Prop) (Good : St → Nat → Prop) (ns : List Nat)
    (hstep : ∀ y n, n ∈ ns → I y → I (f y n) ∧ Good (f y n) n ∧ ∀ m, Good y m → Good (f y n) m)
    (x : St) (hx : I x) :
    I (ns.foldl f x) ∧ (∀ n ∈ ns, Good (ns.foldl f x) n) ∧ ∀ m, Good x m → Good (ns.foldl f x) m := by
  induction ns generalizing x with
  | nil => exact ⟨hx, fun _ h => absurd h List.not_mem_nil, fun _ h => h⟩
  | cons a as ih =>
    simp only [List.foldl_cons]
    obtain ⟨i1, g1, p1⟩ := hstep x a List.mem_cons_self hx
    obtain ⟨i2, g2, p2⟩ := ih (fun y n hn hy => hstep y n (List.mem_cons_of_mem _ hn) hy) (f x a) i1
    refine ⟨i2, ?_, fun m hm => p2 m (p1 m hm)⟩
    intro n hn
    rcases List.mem_cons.mp hn with h | h
    · rw [h]; exact p2 a g1
    · exact g2 n h

/-- an increment built from loops that behave on calm states like the manual ones -/
theorem calm_stepG {C : Cfg} (w2 : WF2 C) (dl ml : St → Nat → St) (dt : ℚ)
    (hdl : ∀ n, n < C.nets.length → ∀ x, Calm C x →
      Calm C (dl x n) ∧ (dl x n).timer = x.timer.set n (tick (gr x.timer n) dt) ∧
      (∀ m, gr (dl x n).pTimer m = gr x.pTimer m ∨ (tick (gr x.timer n) dt ≤ 0 ∧ gr (dl x n).pTimer m = tick (gr x.timer n) dt)) ∧
      OpenAfter C x (dl x n) n (tick (gr x.timer n) dt))
    (hml : ∀ n, n < C.nets.length → ∀ x, Calm C x →
      Calm C (ml x n) ∧
      (ml x n).timer = x.timer.set n (if gr x.pTimer n > tick (gr x.timer n) dt then gr x.pTimer n else tick (gr x.timer n) dt) ∧
      (ml x n).pTimer = x.pTimer.set n (tick (gr x.pTimer n) dt) ∧
      OpenAfter C x (ml x n) n (if gr x.pTimer n > tick (gr x.timer n) dt then gr x.pTimer n else tick (gr x.timer n) dt))
    (x : St) (P B : ℚ) (hx : Run C x P B) (hdt : 0 ≤ dt) (hP : 0 ≤ P) (hPB : P ≤ B) :
    let r := ((List.range C.nets.length).filter (fun n => isMg C n)).foldl ml
      (((List.range C.nets.length).filter (fun n => !isMg C n)).foldl dl
        ((List.range C.lines.length).foldl (fun s l => lineUpdate C s l dt) x))
    Run C r (max (P - dt) 0) (max P (B - dt)) ∧
    (∀ c, gb r.cbOpen c = true → gb x.cbOpen c = true) ∧
    (B ≤ 0 → ∀ c, c < C.cbLine.length → gb r.cbOpen c = false) := by
  intro r
  have hB : 0 ≤ B := le_trans hP hPB
  have hB' : 0 ≤ max P (B - dt) := le_trans hP (le_max_left _ _)
  have hP' : (0 : ℚ) ≤ max (P - dt) 0 := le_max_right _ _
  -- repairs: nothing to do
  obtain ⟨c1, t1, p1, b1⟩ := Calm.lineUpdates (C := C) dt (List.range C.lines.length) (fun l hl => List.mem_range.mp hl) x hx.calm
  set x1 := (List.range C.lines.length).foldl (fun s l => lineUpdate C s l dt) x with hx1
  -- the invariant carried through both controller phases
  let I : St → Prop := fun y => Run C y P B ∧ ∀ c, gb y.cbOpen c = true → gb x.cbOpen c = true
  have i1 : I x1 := ⟨⟨c1, fun m hm => by rw [p1]; exact hx.nm m hm, fun m => by rw [p1, t1]; exact hx.bd m⟩, fun c hc => by rw [b1] at hc; exact hc⟩
  -- distribution controllers
  have dstep : ∀ y n, n ∈ (List.range C.nets.length).filter (fun n => !isMg C n) → I y →
      I (dl y n) ∧ GoodD C B (max P (B - dt)) (dl y n) n ∧
      ∀ m, GoodD C B (max P (B - dt)) y m → GoodD C B (max P (B - dt)) (dl y n) m := by
    intro y n hn hy
    have hn' : n < C.nets.length := List.mem_range.mp (List.mem_filter.mp hn).1
    obtain ⟨k1, k2, k3, k4⟩ := hdl n hn' y hy.1.calm
    have htk : tick (gr y.timer n) dt ≤ max P (B - dt) := tick_le' (hy.1.bd n).2 hP
    have htB : tick (gr y.timer n) dt ≤ B := tick_le (hy.1.bd n).2 hB hdt
    refine ⟨⟨⟨k1, ?_, ?_⟩, fun c hc => hy.2 c (k4 c hc).1⟩, ⟨?_, ?_⟩, ?_⟩
    · intro m hm
      rcases k3 m with h | ⟨h0, h⟩
      · rw [h]; exact hy.1.nm m hm
      · rw [h]; exact h0
    · intro m
      refine ⟨?_, ?_⟩
      · rcases k3 m with h | ⟨h0, h⟩
        · rw [h]; exact (hy.1.bd m).1
        · rw [h]; exact le_trans h0 hP
      · rw [k2, gr_set]; split_ifs
        · exact htB
        · exact (hy.1.bd m).2
    · rw [k2, gr_set_self _ _ _ (by rw [hy.1.calm.tlen]; exact hn')]; exact htk
    · intro hB0
      cases hx' : gb (dl y n).cbOpen (netOf C n).cb
      · rfl
      · exfalso
        have := (k4 _ hx').2 rfl
        have h0 : tick (gr y.timer n) dt = 0 := tick_nonpos (le_trans (hy.1.bd n).2 hB0)
        linarith
    · intro m gm
      refine ⟨?_, fun hB0 => ?_⟩
      · rw [k2, gr_set]; split_ifs
        · exact htk
        · exact gm.1
      · cases hx' : gb (dl y n).cbOpen (netOf C m).cb
        · rfl
        · have hh := (k4 _ hx').1
          rw [gm.2 hB0] at hh; exact absurd hh (by simp)
  obtain ⟨i2, gd2, _⟩ := run_foldl (C := C) dl I (GoodD C B (max P (B - dt))) _ dstep x1 i1
  set x2 := ((List.range C.nets.length).filter (fun n => !isMg C n)).foldl dl x1 with hx2
  -- microgrid controllers
  have mstep : ∀ y n, n ∈ (List.range C.nets.length).filter (fun n => isMg C n) → I y →
      I (ml y n) ∧ (GoodD C B (max P (B - dt)) (ml y n) n ∧ gr (ml y n).pTimer n ≤ max (P - dt) 0) ∧
      ∀ m, (GoodD C B (max P (B - dt)) y m ∧ (isMg C m = true → gr y.pTimer m ≤ max (P - dt) 0)) →
           (GoodD C B (max P (B - dt)) (ml y n) m ∧ (isMg C m = true → gr (ml y n).pTimer m ≤ max (P - dt) 0)) := by
    intro y n hn hy
    have hn' : n < C.nets.length := List.mem_range.mp (List.mem_filter.mp hn).1
    have hmg : isMg C n = true := (List.mem_filter.mp hn).2
    obtain ⟨k1, k2, k3, k4⟩ := hml n hn' y hy.1.calm
    set t := (if gr y.pTimer n > tick (gr y.timer n) dt then gr y.pTimer n else tick (gr y.timer n) dt) with ht
    have htk : t ≤ max P (B - dt) := by
      rw [ht]; split_ifs
      · exact le_trans (hy.1.bd n).1 (le_max_left _ _)
      · exact tick_le' (hy.1.bd n).2 hP
    have htB : t ≤ B := by
      rw [ht]; split_ifs
      · exact le_trans (hy.1.bd n).1 hPB
      · exact tick_le (hy.1.bd n).2 hB hdt
    have hpt : tick (gr y.pTimer n) dt ≤ max (P - dt) 0 := by
      unfold tick; split_ifs
      · exact le_trans (by linarith [(hy.1.bd n).1]) (le_max_left _ _)
      · exact le_max_right _ _
    have hpP : tick (gr y.pTimer n) dt ≤ P := tick_le (hy.1.bd n).1 hP hdt
    have gself : GoodD C B (max P (B - dt)) (ml y n) n := by
      refine ⟨by rw [k2, gr_set_self _ _ _ (by rw [hy.1.calm.tlen]; exact hn')]; exact htk, ?_⟩
      intro hB0
      cases hx' : gb (ml y n).cbOpen (netOf C n).cb
      · rfl
      · exfalso
        have hpos := (k4 _ hx').2 rfl
        have h0 : tick (gr y.timer n) dt = 0 := tick_nonpos (le_trans (hy.1.bd n).2 hB0)
        have hp0 : gr y.pTimer n ≤ 0 := le_trans (hy.1.bd n).1 (le_trans hPB hB0)
        rw [ht] at hpos
        split_ifs at hpos <;> linarith
    refine ⟨⟨⟨k1, ?_, ?_⟩, fun c hc => hy.2 c (k4 c hc).1⟩, ⟨gself, ?_⟩, ?_⟩
    · intro m hm
      rw [k3, gr_set]; split_ifs with hc
      · rw [← hc.1, hmg] at hm; exact absurd hm (by simp)
      · exact hy.1.nm m hm
    · intro m
      refine ⟨?_, ?_⟩
      · rw [k3, gr_set]; split_ifs
        · exact hpP
        · exact (hy.1.bd m).1
      · rw [k2, gr_set]; split_ifs
        · exact htB
        · exact (hy.1.bd m).2
    · rw [k3, gr_set_self _ _ _ (by rw [hy.1.calm.plen]; exact hn')]; exact hpt
    · intro m gm
      refine ⟨⟨?_, fun hB0 => ?_⟩, fun hm => ?_⟩
      · rw [k2, gr_set]; split_ifs
        · exact htk
        · exact gm.1.1
      · cases hx' : gb (ml y n).cbOpen (netOf C m).cb
        · rfl
        · have hh := (k4 _ hx').1
          rw [gm.1.2 hB0] at hh; exact absurd hh (by simp)
      · rw [k3, gr_set]; split_ifs
        · exact hpt
        · exact gm.2 hm
  obtain ⟨i3, gm3, keep3⟩ := run_foldl (C := C) ml I
    (fun y m => GoodD C B (max P (B - dt)) y m ∧ (isMg C m = true → gr y.pTimer m ≤ max (P - dt) 0)) _
    (fun y n hn hy => by
      obtain ⟨a, b, c⟩ := mstep y n hn hy
      exact ⟨a, ⟨b.1, fun _ => b.2⟩, c⟩) x2 i2
  set x3 := ((List.range C.nets.length).filter (fun n => isMg C n)).foldl ml x2 with hx3
  -- every network has been served
  have served : ∀ n, n < C.nets.length → GoodD C B (max P (B - dt)) x3 n ∧ gr x3.pTimer n ≤ max (P - dt) 0 := by
    intro n hn
    cases hmg : isMg C n
    · have hin : n ∈ (List.range C.nets.length).filter (fun n => !isMg C n) :=
        List.mem_filter.mpr ⟨List.mem_range.mpr hn, by rw [hmg]; rfl⟩
      have := keep3 n ⟨gd2 n hin, fun h => by rw [hmg] at h; exact absurd h (by simp)⟩
      exact ⟨this.1, le_trans (i3.1.nm n hmg) hP'⟩
    · have hin : n ∈ (List.range C.nets.length).filter (fun n => isMg C n) :=
        List.mem_filter.mpr ⟨List.mem_range.mpr hn, hmg⟩
      have := gm3 n hin
      exact ⟨this.1, this.2 hmg⟩
  refine ⟨⟨i3.1.calm, i3.1.nm, ?_⟩, i3.2, ?_⟩
  · intro m
    by_cases hm : m < C.nets.length
    · exact ⟨(served m hm).2, (served m hm).1.1⟩
    · have e1 : gr x3.pTimer m = 0 := by
        unfold gr; rw [List.getD_eq_getElem?_getD, List.getElem?_eq_none (by rw [i3.1.calm.plen]; exact Nat.le_of_not_lt hm)]; rfl
      have e2 : gr x3.timer m = 0 := by
        unfold gr; rw [List.getD_eq_getElem?_getD, List.getElem?_eq_none (by rw [i3.1.calm.tlen]; exact Nat.le_of_not_lt hm)]; rfl
      rw [e1, e2]; exact ⟨hP', hB'⟩
  · intro hB0 c hc
    obtain ⟨n, hn, hcb⟩ := w2.cb_owned c hc
    rw [← hcb]
    exact (served n hn).1.2 hB0

theorem calm_step {C : Cfg} (w : WF C) (w2 : WF2 C) (x : St) (P B dt : ℚ) (hx : Run C x P B) (hdt : 0 ≤ dt) (hP : 0 ≤ P) (hPB : P ≤ B) :
    Run C (step C x dt) (max (P - dt) 0) (max P (B - dt)) ∧
    (∀ c, gb (step C x dt).cbOpen c = true → gb x.cbOpen c = true) ∧
    (B ≤ 0 → ∀ c, c < C.cbLine.length → gb (step C x dt).cbOpen c = false) :=
  calm_stepG w2 (fun s n => distLoop C s n dt) (fun s n => mgLoop C s n dt) dt
    (fun n hn y hy => distLoop_calm w n hn y hy dt) (fun n hn y hy => mgLoop_calm w n hn y hy dt) x P B hx hdt hP hPB

theorem calm_stepA {C : Cfg} (w : WF C) (w2 : WF2 C) (x : St) (P B dt : ℚ) (cm : Comm) (hx : Run C x P B) (hdt : 0 ≤ dt) (hP : 0 ≤ P) (hPB : P ≤ B) :
    Run C (stepA C x dt cm) (max (P - dt) 0) (max P (B - dt)) ∧
    (∀ c, gb (stepA C x dt cm).cbOpen c = true → gb x.cbOpen c = true) ∧
    (B ≤ 0 → ∀ c, c < C.cbLine.length → gb (stepA C x dt cm).cbOpen c = false) :=
  calm_stepG w2 (fun s n => distLoopA C s n dt cm) (fun s n => mgLoopA C s n dt cm) dt
    (fun n hn y hy => distLoopA_calm w n hn y hy dt cm) (fun n hn y hy => mgLoopA_calm w n hn y hy dt cm) x P B hx hdt hP hPB

theorem Run.weaken {C : Cfg} {x : St} {P B P' B' : ℚ} (h : Run C x P B) (hP : P ≤ P') (hB : B ≤ B') : Run C x P' B' :=
  ⟨h.calm, h.nm, fun m => ⟨le_trans (h.bd m).1 hP, le_trans (h.bd m).2 hB⟩⟩

/-- remaining sectioning time after `j` increments -/
def leftAfter (T dt : ℚ) (j : ℕ) : ℚ := max (T - j * dt) 0

theorem calm_iter {C : Cfg} (w : WF C) (w2 : WF2 C) (x : St) (dt : ℚ) (hdt : 0 < dt)
    (h0 : Run C x (leftAfter C.T dt 0) (leftAfter C.T dt 0 + dt)) (j : ℕ) :
    Run C ((fun s => step C s dt)^[j] x) (leftAfter C.T dt j) (leftAfter C.T dt j + dt) := by
  induction j with
  | zero => exact h0
  | succ j ih =>
    rw [Function.iterate_succ_apply']
    have hq : 0 ≤ leftAfter C.T dt j := le_max_right _ _
    obtain ⟨r, _, _⟩ := calm_step w w2 _ (leftAfter C.T dt j) (leftAfter C.T dt j + dt) dt ih (le_of_lt hdt) hq (by linarith)
    refine r.weaken ?_ ?_
    · unfold leftAfter
      push_cast
      apply max_le
      · have : max (C.T - j * dt) 0 - dt ≤ max (C.T - (j + 1) * dt) 0 := by
          rcases le_total (C.T - j * dt) 0 with h | h
          · rw [max_eq_right h]; exact le_trans (by linarith) (le_max_right _ _)
          · rw [max_eq_left h]; exact le_trans (by linarith) (le_max_left _ _)
        exact this
      · exact le_max_right _ _
    · unfold leftAfter
      push_cast
      apply max_le
      · rcases le_total (C.T - j * dt) 0 with h | h
        · rw [max_eq_right h]; have := le_max_right (C.T - (j + 1) * dt) 0; linarith
        · rw [max_eq_left h]; have := le_max_left (C.T - (j + 1) * dt) 0; linarith
      · have := le_max_right (C.T - (j + 1) * dt) 0
        rcases le_total (C.T - j * dt) 0 with h | h
        · rw [max_eq_right h]; linarith
        · rw [max_eq_left h]; have := le_max_left (C.T - (j + 1) * dt) 0; linarith

/-- once the sectioning time has run out, two more increments close every breaker and leave all timers at rest -/
theorem calm_finish {C : Cfg} (w : WF C) (w2 : WF2 C) (x : St) (dt : ℚ) (hdt : 0 < dt) (h : Run C x 0 dt) :
    Run C (step C (step C x dt) dt) 0 0 ∧ ∀ c, c < C.cbLine.length → gb (step C (step C x dt) dt).cbOpen c = false := by
  obtain ⟨r1, _, _⟩ := calm_step w w2 x 0 dt dt h (le_of_lt hdt) (le_refl _) (le_of_lt hdt)
  have r1' : Run C (step C x dt) 0 0 := r1.weaken (by apply max_le <;> linarith) (by apply max_le <;> linarith)
  obtain ⟨r2, _, cl⟩ := calm_step w w2 (step C x dt) 0 0 dt r1' (le_of_lt hdt) (le_refl _) (le_refl _)
  exact ⟨r2.weaken (by apply max_le <;> linarith) (by apply max_le <;> linarith), cl (le_refl _)⟩

/-! ### from pointwise facts to the executable `isNormal` -/

theorem all_not_of_gb (l : List Bool) (h : ∀ i, i < l.length → gb l i = false) : l.all (!·) = true := by
  rw [List.all_eq_true]
  intro b hb
  obtain ⟨i, hi, e⟩ := List.getElem_of_mem hb
  have := h i hi
  unfold gb at this
  rw [List.getD_eq_getElem?_getD, List.getElem?_eq_getElem hi, Option.getD_some, e] at this
  rw [this]; rfl

theorem all_id_of_gb (l : List Bool) (h : ∀ i, i < l.length → gb l i = true) : l.all id = true := by
  rw [List.all_eq_true]
  intro b hb
  obtain ⟨i, hi, e⟩ := List.getElem_of_mem hb
  have := h i hi
  unfold gb at this
  rw [List.getD_eq_getElem?_getD, List.getElem?_eq_getElem hi, Option.getD_some, e] at this
  rw [this]; rfl

theorem all_le_of_gr (l : List ℚ) (h : ∀ i, gr l i ≤ 0) : l.all (· ≤ 0) = true := by
  rw [List.all_eq_true]
  intro b hb
  obtain ⟨i, hi, e⟩ := List.getElem_of_mem hb
  have := h i
  unfold gr at this
  rw [List.getD_eq_getElem?_getD, List.getElem?_eq_getElem hi, Option.getD_some, e] at this
  simpa using this

theorem all_empty_of_getD (l : List (List Nat)) (h : ∀ i, i < l.length → l.getD i [] = []) : l.all (·.isEmpty) = true := by
  rw [List.all_eq_true]
  intro b hb
  obtain ⟨i, hi, e⟩ := List.getElem_of_mem hb
  have := h i hi
  rw [List.getD_eq_getElem?_getD, List.getElem?_eq_getElem hi, Option.getD_some, e] at this
  rw [this]; rfl

theorem gb_false_of_all_not (l : List Bool) (h : l.all (!·) = true) (i : Nat) : gb l i = false := by
  unfold gb
  by_cases hi : i < l.length
  · rw [List.getD_eq_getElem?_getD, List.getElem?_eq_getElem hi, Option.getD_some]
    have := (List.all_eq_true.mp h) l[i] (List.getElem_mem hi)
    simpa using this
  · rw [List.getD_eq_getElem?_getD, List.getElem?_eq_none (Nat.le_of_not_lt hi)]; rfl

/-! ### mixed manual / ICT-based histories -/

/-- timer vectors have the right length and the parent timer of a network that is not a microgrid is never started
(every control mode) -/
structure TL (C : Cfg) (s : St) : Prop where
  tlen : s.timer.length = C.nets.length
  plen : s.pTimer.length = C.nets.length
  dist : ∀ m, isMg C m = false → gr s.pTimer m ≤ 0

theorem TL.congr {C : Cfg} {s s' : St} (h : TL C s) (h1 : s'.timer.length = s.timer.length) (h2 : s'.pTimer = s.pTimer) : TL C s' :=
  ⟨h1.trans h.tlen, by rw [h2]; exact h.plen, fun m hm => by rw [h2]; exact h.dist m hm⟩

theorem TL.init (C : Cfg) : TL C (St.init C) :=
  ⟨by simp [St.init], by simp [St.init], fun m _ => by rw [show gr (St.init C).pTimer m = 0 from gr_map_const _ _]⟩

theorem TB.tl {C : Cfg} {s : St} (h : TB C s) : TL C s := ⟨h.tlen, h.plen, h.dist⟩

theorem flagStepA_timer (C : Cfg) (n : Nat) (cm : Comm) (s : St) (k : Nat) :
    (flagStepA C n cm s k).timer.length = s.timer.length ∧ (flagStepA C n cm s k).pTimer = s.pTimer := by
  have rf : ∀ (T : ℚ) (ls : List Nat) (x : St),
      (ls.foldl (fun (s : St) l => { s with rem := s.rem.set l (gr s.rem l + T) }) x).pTimer = x.pTimer := by
    intro T ls
    induction ls with
    | nil => intro x; rfl
    | cons a as ih => intro x; simp only [List.foldl_cons]; exact ih _
  unfold flagStepA
  simp only
  by_cases hf : anyFailed s (C.secs.getD k default).lines = true
  · rw [if_pos hf, remFold_timer, rf]; simp
  · rw [if_neg hf]; exact ⟨rfl, rfl⟩

theorem tl_checkG {C : Cfg} (n : Nat) (f : St → Nat → St)
    (hf : ∀ s k, (f s k).timer.length = s.timer.length ∧ (f s k).pTimer = s.pTimer) (s : St) (h : TL C s) (ks ks' : List Nat) :
    TL C (ks'.foldl (recoStep C n) (ks.foldl f s)) := by
  have key : ∀ (ks : List Nat) (x : St), TL C x → TL C (ks.foldl f x) := by
    intro ks
    induction ks with
    | nil => intro x hx; exact hx
    | cons a as ih => intro x hx; simp only [List.foldl_cons]; exact ih _ (hx.congr (hf x a).1 (hf x a).2)
  have h2 := tm_foldl_eq (recoStep C n) (tm_recoStep C n) ks' (ks.foldl f s)
  exact (key ks s h).congr (by rw [h2.1]) h2.2

theorem TL.checkLines {C : Cfg} {s : St} (h : TL C s) (n : Nat) : TL C (checkLinesManually C s n) := by
  rw [checkLinesManually_eq]
  exact tl_checkG n (flagStep C n) (fun s k => ⟨by rw [flagStep_timer]; split_ifs <;> simp, tm_flagStep_pTimer C n s k⟩) s h _ _

theorem TL.checkSens {C : Cfg} {s : St} (h : TL C s) (n : Nat) (cm : Comm) : TL C (checkSensors C s n cm) := by
  rw [checkSensors_eq]
  exact tl_checkG n (flagStepA C n cm) (flagStepA_timer C n cm) s h _ _

theorem TL.loopCore {C : Cfg} (n : Nat) (s1 : St) (t1 : TL C s1) (chk : St → St) (hchk : ∀ a, TL C a → TL C (chk a)) (g : St → St)
    (hg : ∀ a, TL C a → TL C (g a)) :
    TL C (checkBreakerManually C
      (if gb (if gb s1.cbOpen (C.nets.getD n default).cb && decide (gr s1.timer n ≤ 0) then { s1 with check := s1.check.set n true } else s1).check n
       then { g (chk (if gb s1.cbOpen (C.nets.getD n default).cb && decide (gr s1.timer n ≤ 0) then { s1 with check := s1.check.set n true } else s1)) with
              check := (g (chk (if gb s1.cbOpen (C.nets.getD n default).cb && decide (gr s1.timer n ≤ 0) then { s1 with check := s1.check.set n true } else s1))).check.set n false }
       else (if gb s1.cbOpen (C.nets.getD n default).cb && decide (gr s1.timer n ≤ 0) then { s1 with check := s1.check.set n true } else s1)) n) := by
  set s2 : St := (if gb s1.cbOpen (C.nets.getD n default).cb && decide (gr s1.timer n ≤ 0) then { s1 with check := s1.check.set n true } else s1) with hs2
  have t2 : TL C s2 := by
    rw [hs2]; split_ifs
    · exact t1.congr rfl rfl
    · exact t1
  have hb := tm_checkBreakerManually C
      (if gb s2.check n then { g (chk s2) with check := (g (chk s2)).check.set n false } else s2) n
  refine TL.congr ?_ (by rw [hb.1]) hb.2
  split_ifs
  · exact (hg _ (hchk _ t2)).congr rfl rfl
  · exact t2

theorem tl_childFold {C : Cfg} (w2 : WF2 C) (n : Nat) (hn : n < C.nets.length) (a : St) (ha : TL C a) :
    TL C ((C.nets.getD n default).children.foldl (fun (s : St) m =>
        if gb s.cbOpen (C.nets.getD m default).cb then { s with pTimer := s.pTimer.set m (gr s.timer n) } else s) a) := by
  obtain ⟨e1, e2, e3⟩ := childFold_tm C n (C.nets.getD n default).children a
  refine ⟨by rw [e1]; exact ha.tlen, by rw [e2]; exact ha.plen, ?_⟩
  intro m hm
  rcases e3 m with h' | ⟨hin, _⟩
  · rw [h']; exact ha.dist m hm
  · rw [w2.children_mg n hn m hin] at hm; exact absurd hm (by simp)

theorem tl_mgStart {C : Cfg} {s : St} (h : TL C s) (n : Nat) (hmg : isMg C n = true) (t p : ℚ) :
    TL C ({ s with timer := s.timer.set n t, pTimer := s.pTimer.set n p } : St) := by
  refine ⟨by simp [h.tlen], by simp [h.plen], ?_⟩
  intro m hm
  show gr (s.pTimer.set n p) m ≤ 0
  rw [gr_set]; split_ifs with hc
  · rw [← hc.1, hmg] at hm; exact absurd hm (by simp)
  · exact h.dist m hm

theorem TL.distLoop {C : Cfg} {s : St} (w2 : WF2 C) (h : TL C s) (n : Nat) (hn : n < C.nets.length) (dt : ℚ) : TL C (distLoop C s n dt) := by
  unfold Relsad.Control.distLoop
  simp only []
  have t1 : TL C { s with timer := s.timer.set n (tick (gr s.timer n) dt) } := h.congr (by simp) rfl
  exact TL.loopCore n _ t1 (fun a => checkLinesManually C a n) (fun a ha => ha.checkLines n) _ (fun a ha => tl_childFold w2 n hn a ha)

theorem TL.distLoopA {C : Cfg} {s : St} (w2 : WF2 C) (h : TL C s) (n : Nat) (hn : n < C.nets.length) (dt : ℚ) (cm : Comm) :
    TL C (distLoopA C s n dt cm) := by
  unfold Relsad.Control.distLoopA
  simp only []
  have t1 : TL C { s with timer := s.timer.set n (tick (gr s.timer n) dt) } := h.congr (by simp) rfl
  exact TL.loopCore n _ t1 (fun a => checkSensors C a n cm) (fun a ha => ha.checkSens n cm) _ (fun a ha => tl_childFold w2 n hn a ha)

theorem TL.mgLoop {C : Cfg} {s : St} (h : TL C s) (n : Nat) (hmg : isMg C n = true) (dt : ℚ) : TL C (mgLoop C s n dt) := by
  unfold Relsad.Control.mgLoop
  simp only []
  exact TL.loopCore n _ (tl_mgStart h n hmg _ _) (fun a => checkLinesManually C a n) (fun a ha => ha.checkLines n) (fun a => a) (fun a ha => ha)

theorem TL.mgLoopA {C : Cfg} {s : St} (h : TL C s) (n : Nat) (hmg : isMg C n = true) (dt : ℚ) (cm : Comm) : TL C (mgLoopA C s n dt cm) := by
  unfold Relsad.Control.mgLoopA
  simp only []
  exact TL.loopCore n _ (tl_mgStart h n hmg _ _) (fun a => checkSensors C a n cm) (fun a ha => ha.checkSens n cm) (fun a => a) (fun a ha => ha)

theorem tl_foldl {C : Cfg} {α : Type} (f : St → α → St) (l : List α) (P : α → Prop) (hP : ∀ a ∈ l, P a)
    (hf : ∀ s a, P a → TL C s → TL C (f s a)) (s : St) (h : TL C s) : TL C (l.foldl f s) := by
  induction l generalizing s with
  | nil => exact h
  | cons a as ih =>
    simp only [List.foldl_cons]
    exact ih (fun x hx => hP x (List.mem_cons_of_mem _ hx)) _ (hf s a (hP a List.mem_cons_self) h)

theorem TL.step {C : Cfg} {s : St} (w2 : WF2 C) (h : TL C s) (dt : ℚ) : TL C (step C s dt) := by
  unfold Relsad.Control.step
  simp only []
  refine tl_foldl _ _ (fun n => isMg C n = true) ?_ (fun s' n hn h' => h'.mgLoop n hn dt) _ ?_
  · intro n hn; exact (List.mem_filter.mp hn).2
  refine tl_foldl _ _ (fun n => n < C.nets.length) ?_ (fun s' n hn h' => h'.distLoop w2 n hn dt) _ ?_
  · intro n hn; exact List.mem_range.mp (List.mem_filter.mp hn).1
  exact tl_foldl _ _ (fun _ => True) (fun _ _ => trivial)
    (fun s' l _ h' => h'.congr (by rw [(tm_lineUpdate C s' l dt).1]) (tm_lineUpdate C s' l dt).2) _ h

theorem TL.stepA {C : Cfg} {s : St} (w2 : WF2 C) (h : TL C s) (dt : ℚ) (cm : Comm) : TL C (stepA C s dt cm) := by
  unfold Relsad.Control.stepA
  simp only []
  refine tl_foldl _ _ (fun n => isMg C n = true) ?_ (fun s' n hn h' => h'.mgLoopA n hn dt cm) _ ?_
  · intro n hn; exact (List.mem_filter.mp hn).2
  refine tl_foldl _ _ (fun n => n < C.nets.length) ?_ (fun s' n hn h' => h'.distLoopA w2 n hn dt cm) _ ?_
  · intro n hn; exact List.mem_range.mp (List.mem_filter.mp hn).1
  exact tl_foldl _ _ (fun _ => True) (fun _ _ => trivial)
    (fun s' l _ h' => h'.congr (by rw [(tm_lineUpdate C s' l dt).1]) (tm_lineUpdate C s' l dt).2) _ h

theorem TL.afterFail {C : Cfg} {s : St} (h : TL C s) (l : Nat) (rep : ℚ) : TL C (lineFail C s l rep) :=
  h.congr (by rw [(tm_lineFail C s l rep).1]) (tm_lineFail C s l rep).2

theorem NF.stepA {C : Cfg} {s : St} (w : WF C) (w2 : WF2 C) (h : NF C s) (dt : ℚ) (cm : Comm) : NF C (stepA C s dt cm) := by
  unfold Relsad.Control.stepA
  simp only []
  refine nfI_foldl _ _ (fun s' n => nf_mgLoopA C s' n dt cm) _ ?_
  refine nfI_foldl _ _ (fun s' n => nf_distLoopA C s' n dt cm) _ ?_
  have key : ∀ (ls : List Nat) (x : St), (∀ l ∈ ls, l < C.lines.length) → NF C x → NF C (ls.foldl (fun s l => lineUpdate C s l dt) x) := by
    intro ls
    induction ls with
    | nil => intro x _ hx; exact hx
    | cons a as ih =>
      intro x hin hx
      simp only [List.foldl_cons]
      exact ih _ (fun l hl => hin l (List.mem_cons_of_mem _ hl)) (hx.afterUpdate w w2 a (hin a List.mem_cons_self) dt)
  exact key _ s (fun l hl => List.mem_range.mp hl) h

/-- one increment, manual (`none`) or ICT-based with what the controllers can reach (`some cm`) -/
def stepM (C : Cfg) (dt : ℚ) (s : St) : Option Comm → St
  | none => step C s dt
  | some cm => stepA C s dt cm

theorem calm_stepM {C : Cfg} (w : WF C) (w2 : WF2 C) (x : St) (P B dt : ℚ) (i : Option Comm) (hx : Run C x P B) (hdt : 0 ≤ dt) (hP : 0 ≤ P) (hPB : P ≤ B) :
    Run C (stepM C dt x i) (max (P - dt) 0) (max P (B - dt)) ∧
    (B ≤ 0 → ∀ c, c < C.cbLine.length → gb (stepM C dt x i).cbOpen c = false) := by
  cases i with
  | none => obtain ⟨a, _, c⟩ := calm_step w w2 x P B dt hx hdt hP hPB; exact ⟨a, c⟩
  | some cm => obtain ⟨a, _, c⟩ := calm_stepA w w2 x P B dt cm hx hdt hP hPB; exact ⟨a, c⟩

theorem leftAfter_step (M dt : ℚ) (hdt : 0 < dt) (j : ℕ) :
    max (leftAfter M dt j - dt) 0 ≤ leftAfter M dt (j + 1) ∧
    max (leftAfter M dt j) (leftAfter M dt j + dt - dt) ≤ leftAfter M dt (j + 1) + dt := by
  unfold leftAfter
  push_cast
  have h1 := le_max_left (M - (j + 1) * dt) 0
  have h2 := le_max_right (M - (j + 1) * dt) 0
  rcases le_total (M - j * dt) 0 with h | h
  · rw [max_eq_right h]
    exact ⟨max_le (by linarith) h2, max_le (by linarith) (by linarith)⟩
  · rw [max_eq_left h]
    exact ⟨max_le (by linarith) h2, max_le (by linarith) (by linarith)⟩

/-- any sequence of calm increments (manual or ICT-based): the timer bound goes down by `dt` per increment -/
theorem calm_iterM {C : Cfg} (w : WF C) (w2 : WF2 C) (M dt : ℚ) (hdt : 0 < dt) (ins : List (Option Comm)) (j : ℕ) (x : St)
    (h0 : Run C x (leftAfter M dt j) (leftAfter M dt j + dt)) :
    Run C (ins.foldl (stepM C dt) x) (leftAfter M dt (j + ins.length)) (leftAfter M dt (j + ins.length) + dt) := by
  induction ins generalizing j x with
  | nil => exact h0
  | cons i is ih =>
    simp only [List.foldl_cons, List.length_cons]
    have hq : 0 ≤ leftAfter M dt j := le_max_right _ _
    obtain ⟨r, _⟩ := calm_stepM w w2 x (leftAfter M dt j) (leftAfter M dt j + dt) dt i h0 (le_of_lt hdt) hq (by linarith)
    have hs := leftAfter_step M dt hdt j
    have := ih (j + 1) (stepM C dt x i) (r.weaken hs.1 hs.2)
    rw [show j + (is.length + 1) = j + 1 + is.length by omega]
    exact this

theorem calm_finishM {C : Cfg} (w : WF C) (w2 : WF2 C) (x : St) (dt : ℚ) (hdt : 0 < dt) (i1 i2 : Option Comm) (h : Run C x 0 dt) :
    Run C (stepM C dt (stepM C dt x i1) i2) 0 0 ∧ ∀ c, c < C.cbLine.length → gb (stepM C dt (stepM C dt x i1) i2).cbOpen c = false := by
  obtain ⟨r1, _⟩ := calm_stepM w w2 x 0 dt dt i1 h (le_of_lt hdt) (le_refl _) (le_of_lt hdt)
  have r1' : Run C (stepM C dt x i1) 0 0 := r1.weaken (by apply max_le <;> linarith) (by apply max_le <;> linarith)
  obtain ⟨r2, cl⟩ := calm_stepM w w2 (stepM C dt x i1) 0 0 dt i2 r1' (le_of_lt hdt) (le_refl _) (le_refl _)
  exact ⟨r2.weaken (by apply max_le <;> linarith) (by apply max_le <;> linarith), cl (le_refl _)⟩

/-! ### a software failure of the main controller (its recovery time handed to sub-controllers with an open breaker) -/

theorem spreadTimers_length (C : Cfg) (cb : List Bool) (S : ℚ) (t : List ℚ) : (spreadTimers C cb S t).length = t.length := by
  unfold spreadTimers
  have key : ∀ (ns : List Nat) (x : List ℚ),
      (ns.foldl (fun t n => if gb cb (C.nets.getD n default).cb then t.set n (if gr t n < S then S else gr t n) else t) x).length = x.length := by
    intro ns
    induction ns with
    | nil => intro x; rfl
    | cons a as ih =>
      intro x
      simp only [List.foldl_cons]
      rw [ih]
      split_ifs <;> simp
  exact key _ t

/-- value of every timer after the hand-over: the larger of its own value and `S` if the network's breaker is open,
unchanged otherwise -/
theorem spreadTimers_get (C : Cfg) (cb : List Bool) (S : ℚ) (t : List ℚ) (ht : t.length = C.nets.length) (m : Nat) :
    gr (spreadTimers C cb S t) m =
      if m < C.nets.length ∧ gb cb (C.nets.getD m default).cb = true then (if gr t m < S then S else gr t m) else gr t m := by
  unfold spreadTimers
  have key : ∀ (k : Nat), k ≤ C.nets.length →
      let r := (List.range k).foldl (fun t n => if gb cb (C.nets.getD n default).cb then t.set n (if gr t n < S then S else gr t n) else t) t
      r.length = t.length ∧
      gr r m = if m < k ∧ gb cb (C.nets.getD m default).cb = true then (if gr t m < S then S else gr t m) else gr t m := by
    intro k
    induction k with
    | zero => intro _; exact ⟨rfl, by simp⟩
    | succ k ih =>
      intro hk
      obtain ⟨l1, g1⟩ := ih (by omega)
      rw [List.range_succ, List.foldl_append]
      simp only [List.foldl_cons, List.foldl_nil]
      set r := (List.range k).foldl (fun t n => if gb cb (C.nets.getD n default).cb then t.set n (if gr t n < S then S else gr t n) else t) t with hr
      by_cases hc : gb cb (C.nets.getD k default).cb = true
      · rw [if_pos hc]
        refine ⟨by simp [l1], ?_⟩
        by_cases hmk : m = k
        · have gk : gr r k = gr t k := by
            have := g1; rw [hmk] at this; rw [this]; simp
          rw [hmk, gr_set_self _ _ _ (by rw [l1, ht]; omega), gk]
          exact (if_pos (show k < k + 1 ∧ gb cb (C.nets.getD k default).cb = true from ⟨by omega, hc⟩)).symm
        · rw [gr_set_ne _ _ _ _ (fun e => hmk e.symm), g1]
          by_cases hm : m < k
          · have : m < k + 1 := by omega
            simp [hm, this]
          · have : ¬ m < k + 1 := by omega
            simp [hm, this]
      · rw [if_neg hc]
        refine ⟨l1, ?_⟩
        rw [g1]
        by_cases hmk : m = k
        · rw [hmk, if_neg (fun h => absurd h.1 (lt_irrefl k)), if_neg (fun h => hc h.2)]
        · by_cases hm : m < k
          · have : m < k + 1 := by omega
            simp [hm, this]
          · have : ¬ m < k + 1 := by omega
            simp [hm, this]
  exact (key C.nets.length (le_refl _)).2

/-- the hand-over never shortens a running sectioning time -/
theorem spreadSec_timer_ge (C : Cfg) (s : St) (S : ℚ) (ht : s.timer.length = C.nets.length) (m : Nat) :
    gr s.timer m ≤ gr (spreadSec C s S).timer m := by
  show gr s.timer m ≤ gr (spreadTimers C s.cbOpen S s.timer) m
  rw [spreadTimers_get C s.cbOpen S s.timer ht m]
  split_ifs with h1 h2
  · exact le_of_lt h2
  · exact le_refl _
  · exact le_refl _

theorem TL.spread {C : Cfg} {s : St} (h : TL C s) (S : ℚ) : TL C (spreadSec C s S) :=
  h.congr (spreadTimers_length C s.cbOpen S s.timer) rfl

theorem NF.spread {C : Cfg} {s : St} (h : NF C s) (S : ℚ) : NF C (spreadSec C s S) := h.congr rfl rfl

theorem Quad.spread {C : Cfg} {s : St} (q : Quad C s) (S : ℚ) : Quad C (spreadSec C s S) :=
  ⟨⟨⟨q.triple.both.inv.congr rfl rfl rfl rfl rfl rfl, q.triple.both.inv2.congr rfl rfl rfl rfl⟩, q.triple.sa.congr rfl rfl rfl⟩,
   q.g.congr rfl rfl rfl rfl⟩

end Relsad.Control
