/-
Helper lemmas for the switching model: the "opening" operations (line disconnect, disconnector
open, breaker open, section disconnect, line fail) never put a line in service and never close
a switch.
-/
import Relsad.Model.Control
import Mathlib.Tactic.Linarith

namespace Relsad.Control

theorem gb_set (l : List Bool) (i j : Nat) (v : Bool) :
    gb (l.set i v) j = if i = j ∧ i < l.length then v else gb l j := by
  unfold gb
  simp only [List.getD_eq_getElem?_getD, List.getElem?_set]
  by_cases h : i = j
  · subst h
    by_cases hl : i < l.length
    · simp [hl]
    · simp [hl, List.getElem?_eq_none (Nat.le_of_not_lt hl)]
  · simp [h]

/-- `s'` is reached from `s` by opening only: no line newly in service, no switch newly closed,
failure flags and section states untouched by this relation's clauses on lines/switches. -/
structure Opens (s s' : St) : Prop where
  conn : ∀ i, gb s'.conn i = true → gb s.conn i = true
  dOpen : ∀ d, gb s.dOpen d = true → gb s'.dOpen d = true
  cbOpen : ∀ c, gb s.cbOpen c = true → gb s'.cbOpen c = true

theorem Opens.refl (s : St) : Opens s s := ⟨fun _ h => h, fun _ h => h, fun _ h => h⟩

theorem Opens.trans {a b c : St} (h1 : Opens a b) (h2 : Opens b c) : Opens a c :=
  ⟨fun i h => h1.conn i (h2.conn i h), fun d h => h2.dOpen d (h1.dOpen d h), fun x h => h2.cbOpen x (h1.cbOpen x h)⟩

theorem opens_lineDisconnect (s : St) (l : Nat) : Opens s (lineDisconnect s l) := by
  refine ⟨?_, fun _ h => h, fun _ h => h⟩
  intro i h
  simp only [lineDisconnect] at h
  rw [gb_set] at h
  by_cases hc : l = i ∧ l < s.conn.length
  · rw [if_pos hc] at h; exact absurd h (by simp)
  · rw [if_neg hc] at h; exact h

theorem opens_disconOpen (C : Cfg) (s : St) (d : Nat) : Opens s (disconOpen C s d) := by
  unfold disconOpen
  refine Opens.trans (b := { s with dOpen := s.dOpen.set d true }) ⟨fun _ h => h, ?_, fun _ h => h⟩ (opens_lineDisconnect _ _)
  intro e h
  show gb (s.dOpen.set d true) e = true
  rw [gb_set]
  by_cases hc : d = e ∧ d < s.dOpen.length
  · rw [if_pos hc]
  · rw [if_neg hc]; exact h

theorem opens_foldl {α : Type} (f : St → α → St) (hf : ∀ s a, Opens s (f s a)) (l : List α) (s : St) :
    Opens s (l.foldl f s) := by
  induction l generalizing s with
  | nil => exact Opens.refl s
  | cons a as ih => exact Opens.trans (hf s a) (ih (f s a))

theorem opens_cbOpenOp (C : Cfg) (s : St) (c : Nat) : Opens s (cbOpenOp C s c) := by
  unfold cbOpenOp
  simp only
  refine Opens.trans (b := { s with cbOpen := s.cbOpen.set c true }) ⟨fun _ h => h, fun _ h => h, ?_⟩ ?_
  · intro e h
    show gb (s.cbOpen.set c true) e = true
    rw [gb_set]
    by_cases hc : c = e ∧ c < s.cbOpen.length
    · rw [if_pos hc]
    · rw [if_neg hc]; exact h
  · refine Opens.trans (opens_foldl _ ?_ _ _) (opens_lineDisconnect _ _)
    intro s' d
    split_ifs
    · exact Opens.refl _
    · exact opens_disconOpen C s' d

theorem opens_swOpen (C : Cfg) (s : St) (sw : Sw) : Opens s (swOpen C s sw) := by
  cases sw with
  | discon d => exact opens_disconOpen C s d
  | breaker c => exact opens_cbOpenOp C s c

theorem opens_secDisconnect (C : Cfg) (s : St) (k : Nat) : Opens s (secDisconnect C s k) := by
  unfold secDisconnect
  simp only
  refine Opens.trans (b := { s with secConn := s.secConn.set k false }) ⟨fun _ h => h, fun _ h => h, fun _ h => h⟩ ?_
  exact Opens.trans (opens_foldl _ (fun s' l => opens_lineDisconnect s' l) _ _) (opens_foldl _ (fun s' sw => opens_swOpen C s' sw) _ _)

theorem opens_lineFail (C : Cfg) (s : St) (l : Nat) (rep : ℚ) : Opens s (lineFail C s l rep) := by
  unfold lineFail
  simp only
  split_ifs
  · refine Opens.trans (b := { s with failed := s.failed.set l true, netFailed := s.netFailed.set (C.lines.getD l default).net true, rem := s.rem.set l rep })
      ⟨fun _ h => h, fun _ h => h, fun _ h => h⟩ ?_
    exact Opens.trans (opens_cbOpenOp C _ _) (opens_foldl _ (fun s' m => opens_cbOpenOp C s' _) _ _)
  · exact ⟨fun _ h => h, fun _ h => h, fun _ h => h⟩

/-- a breaker operation marks the breaker open (index in range) -/
theorem cbOpenOp_sets (C : Cfg) (s : St) (c : Nat) (hc : c < s.cbOpen.length) : gb (cbOpenOp C s c).cbOpen c = true := by
  have h0 : gb ({ s with cbOpen := s.cbOpen.set c true } : St).cbOpen c = true := by
    show gb (s.cbOpen.set c true) c = true
    rw [gb_set, if_pos ⟨rfl, hc⟩]
  unfold cbOpenOp
  simp only
  have h1 := opens_foldl (fun (s : St) d => if gb s.dOpen d then s else disconOpen C s d)
    (fun s' d => by
      show Opens s' (if gb s'.dOpen d then s' else disconOpen C s' d)
      split_ifs
      · exact Opens.refl _
      · exact opens_disconOpen C s' d)
    (C.lines.getD (C.cbLine.getD c 0) default).discons { s with cbOpen := s.cbOpen.set c true }
  exact (opens_lineDisconnect _ _).cbOpen c (h1.cbOpen c h0)

/-- lengths of the switch vectors are preserved by the opening operations -/
theorem cbOpen_length_foldl {α : Type} (f : St → α → St) (hf : ∀ s a, (f s a).cbOpen.length = s.cbOpen.length)
    (l : List α) (s : St) : (l.foldl f s).cbOpen.length = s.cbOpen.length := by
  induction l generalizing s with
  | nil => rfl
  | cons a as ih => simp only [List.foldl_cons]; rw [ih, hf]

theorem cbOpen_length_disconOpen (C : Cfg) (s : St) (d : Nat) : (disconOpen C s d).cbOpen.length = s.cbOpen.length := by
  simp [disconOpen, lineDisconnect]

theorem cbOpen_length_cbOpenOp (C : Cfg) (s : St) (c : Nat) : (cbOpenOp C s c).cbOpen.length = s.cbOpen.length := by
  unfold cbOpenOp
  simp only [lineDisconnect]
  rw [cbOpen_length_foldl]
  · simp
  · intro s' d; split_ifs
    · rfl
    · exact cbOpen_length_disconOpen C s' d

end Relsad.Control

namespace Relsad.Control

/-! ### frame lemmas: which operations touch the breaker vector -/

theorem cbOpen_lineDisconnect (s : St) (l : Nat) : (lineDisconnect s l).cbOpen = s.cbOpen := rfl
theorem cbOpen_lineConnect (s : St) (l : Nat) : (lineConnect s l).cbOpen = s.cbOpen := rfl
theorem cbOpen_disconOpen (C : Cfg) (s : St) (d : Nat) : (disconOpen C s d).cbOpen = s.cbOpen := rfl
theorem cbOpen_disconClose (C : Cfg) (s : St) (d : Nat) : (disconClose C s d).cbOpen = s.cbOpen := rfl

theorem cbOpen_foldl_eq {α : Type} (f : St → α → St) (hf : ∀ s a, (f s a).cbOpen = s.cbOpen) (l : List α) (s : St) :
    (l.foldl f s).cbOpen = s.cbOpen := by
  induction l generalizing s with
  | nil => rfl
  | cons a as ih => simp only [List.foldl_cons]; rw [ih, hf]

/-- a breaker operation changes the breaker vector at its own index only -/
theorem cbOpenOp_frame (C : Cfg) (s : St) (c : Nat) : (cbOpenOp C s c).cbOpen = s.cbOpen.set c true := by
  unfold cbOpenOp
  simp only [cbOpen_lineDisconnect]
  rw [cbOpen_foldl_eq]
  intro s' d; split_ifs
  · rfl
  · exact cbOpen_disconOpen C s' d

theorem cbCloseOp_frame (C : Cfg) (s : St) (c : Nat) : (cbCloseOp C s c).cbOpen = s.cbOpen.set c false := by
  unfold cbCloseOp
  simp only [cbOpen_lineConnect]
  rw [cbOpen_foldl_eq]
  intro s' d; split_ifs
  · exact cbOpen_disconClose C s' d
  · rfl

/-- reconnecting a section never operates a breaker -/
theorem secConnectManually_cbOpen (C : Cfg) (s : St) (k : Nat) : (secConnectManually C s k).cbOpen = s.cbOpen := by
  unfold secConnectManually
  simp only
  rw [cbOpen_foldl_eq, cbOpen_foldl_eq]
  · intro s' l
    cases (C.lines.getD l default).cb with
    | none => rfl
    | some c => simp only; split_ifs <;> rfl
  · intro s' sw
    cases sw with
    | breaker c => rfl
    | discon d =>
      simp only
      split_ifs
      · rfl
      · cases (C.lines.getD (C.disconLine.getD d 0) default).cb with
        | none => rfl
        | some c => simp only; split_ifs <;> rfl

/-- the line check of a controller never operates a breaker -/
theorem checkLinesManually_cbOpen (C : Cfg) (s : St) (n : Nat) : (checkLinesManually C s n).cbOpen = s.cbOpen := by
  unfold checkLinesManually
  simp only
  rw [cbOpen_foldl_eq, cbOpen_foldl_eq]
  · intro s' k
    split_ifs
    · rw [cbOpen_foldl_eq]
      intro s'' l; rfl
    · rfl
  · intro s' k
    split_ifs
    · rfl
    · simp only; exact secConnectManually_cbOpen C s' k

/-! ### constant vectors -/

theorem set_map_const {α β : Type} (xs : List α) (i : Nat) (c : β) :
    (xs.map (fun _ => c)).set i c = xs.map (fun _ => c) := by
  induction xs generalizing i with
  | nil => simp
  | cons x xs ih => cases i with
    | zero => simp
    | succ i => simp [ih]

theorem gb_map_const {α : Type} (xs : List α) (i : Nat) : gb (xs.map (fun _ => false)) i = false := by
  unfold gb
  induction xs generalizing i with
  | nil => simp
  | cons x xs ih => cases i with
    | zero => simp
    | succ i => simpa using ih i

theorem gr_map_const {α : Type} (xs : List α) (i : Nat) : gr (xs.map (fun _ => (0 : ℚ))) i = 0 := by
  unfold gr
  induction xs generalizing i with
  | nil => simp
  | cons x xs ih => cases i with
    | zero => simp
    | succ i => simpa using ih i

end Relsad.Control
