/-
The inductive invariant behind C05's `IsolatedInv` and its preservation by every operation of the
switching model (`Model/Control.lean`), for every well-formed configuration.

  Safe n   breaker of n closed → no failed line of n is in service
  Out n    a section of n that is out of service and not (any longer) listed as failed has all its lines out
  Head n   the section of the breaker's own line is listed as failed whenever it is out of service

`Inv` = sizes ∧ ∀ n, Safe n ∧ Out n ∧ Head n.
-/
import Relsad.Model.ControlInv
import Relsad.Lemmas.ControlL

namespace Relsad.Control

/-! ### list helpers -/

theorem getD_set_self {α : Type} (l : List α) (i : Nat) (v d : α) (h : i < l.length) : (l.set i v).getD i d = v := by
  simp [List.getD_eq_getElem?_getD, h]

theorem getD_set_ne {α : Type} (l : List α) (i j : Nat) (v d : α) (h : i ≠ j) : (l.set i v).getD j d = l.getD j d := by
  simp [List.getD_eq_getElem?_getD, h]

theorem gb_set_self (l : List Bool) (i : Nat) (v : Bool) (h : i < l.length) : gb (l.set i v) i = v := by
  rw [gb_set, if_pos ⟨rfl, h⟩]

theorem gb_set_ne (l : List Bool) (i j : Nat) (v : Bool) (h : i ≠ j) : gb (l.set i v) j = gb l j := by
  rw [gb_set, if_neg (fun hh => h hh.1)]

theorem gb_set_true_imp (l : List Bool) (i j : Nat) (h : gb (l.set i false) j = true) : gb l j = true ∧ (i ≠ j ∨ ¬ i < l.length) := by
  rw [gb_set] at h
  by_cases hc : i = j ∧ i < l.length
  · rw [if_pos hc] at h; exact absurd h (by simp)
  · rw [if_neg hc] at h
    refine ⟨h, ?_⟩
    by_cases hij : i = j
    · right; exact fun hl => hc ⟨hij, hl⟩
    · left; exact hij

/-! ### sizes -/

/-- the vector lengths the argument needs -/
structure Sz (C : Cfg) (s : St) : Prop where
  conn : s.conn.length = C.lines.length
  secConn : s.secConn.length = C.secs.length
  cbOpen : s.cbOpen.length = C.cbLine.length
  check : s.check.length = C.nets.length
  failedSecs : s.failedSecs.length = C.nets.length

structure SameLen (s s' : St) : Prop where
  conn : s'.conn.length = s.conn.length
  secConn : s'.secConn.length = s.secConn.length
  cbOpen : s'.cbOpen.length = s.cbOpen.length
  check : s'.check.length = s.check.length
  failedSecs : s'.failedSecs.length = s.failedSecs.length

theorem SameLen.refl (s : St) : SameLen s s := ⟨rfl, rfl, rfl, rfl, rfl⟩
theorem SameLen.trans {a b c : St} (h1 : SameLen a b) (h2 : SameLen b c) : SameLen a c :=
  ⟨h2.conn.trans h1.conn, h2.secConn.trans h1.secConn, h2.cbOpen.trans h1.cbOpen, h2.check.trans h1.check, h2.failedSecs.trans h1.failedSecs⟩

theorem SameLen.sz {C : Cfg} {s s' : St} (h : SameLen s s') (hs : Sz C s) : Sz C s' :=
  ⟨h.conn.trans hs.conn, h.secConn.trans hs.secConn, h.cbOpen.trans hs.cbOpen, h.check.trans hs.check, h.failedSecs.trans hs.failedSecs⟩

theorem sameLen_foldl {α : Type} (f : St → α → St) (hf : ∀ s a, SameLen s (f s a)) (l : List α) (s : St) :
    SameLen s (l.foldl f s) := by
  induction l generalizing s with
  | nil => exact SameLen.refl s
  | cons a as ih => exact SameLen.trans (hf s a) (ih (f s a))

theorem sameLen_lineDisconnect (s : St) (l : Nat) : SameLen s (lineDisconnect s l) := by
  refine ⟨?_, rfl, rfl, rfl, rfl⟩; simp [lineDisconnect]
theorem sameLen_lineConnect (s : St) (l : Nat) : SameLen s (lineConnect s l) := by
  refine ⟨?_, rfl, rfl, rfl, rfl⟩; simp [lineConnect]
theorem sameLen_disconOpen (C : Cfg) (s : St) (d : Nat) : SameLen s (disconOpen C s d) := by
  refine ⟨?_, rfl, rfl, rfl, rfl⟩; simp [disconOpen, lineDisconnect]
theorem sameLen_disconClose (C : Cfg) (s : St) (d : Nat) : SameLen s (disconClose C s d) := by
  refine ⟨?_, rfl, rfl, rfl, rfl⟩; simp [disconClose, lineConnect]

theorem sameLen_cbOpenOp (C : Cfg) (s : St) (c : Nat) : SameLen s (cbOpenOp C s c) := by
  unfold cbOpenOp
  simp only
  refine SameLen.trans (b := { s with cbOpen := s.cbOpen.set c true }) ⟨rfl, rfl, by simp, rfl, rfl⟩ ?_
  refine SameLen.trans (sameLen_foldl _ ?_ _ _) (sameLen_lineDisconnect _ _)
  intro s' d; split_ifs
  · exact SameLen.refl _
  · exact sameLen_disconOpen C s' d

theorem sameLen_cbCloseOp (C : Cfg) (s : St) (c : Nat) : SameLen s (cbCloseOp C s c) := by
  unfold cbCloseOp
  simp only
  refine SameLen.trans (b := { s with cbOpen := s.cbOpen.set c false }) ⟨rfl, rfl, by simp, rfl, rfl⟩ ?_
  refine SameLen.trans (sameLen_foldl _ ?_ _ _) (sameLen_lineConnect _ _)
  intro s' d; split_ifs
  · exact sameLen_disconClose C s' d
  · exact SameLen.refl _

theorem sameLen_swOpen (C : Cfg) (s : St) (sw : Sw) : SameLen s (swOpen C s sw) := by
  cases sw with
  | discon d => exact sameLen_disconOpen C s d
  | breaker c => exact sameLen_cbOpenOp C s c

theorem sameLen_secDisconnect (C : Cfg) (s : St) (k : Nat) : SameLen s (secDisconnect C s k) := by
  unfold secDisconnect
  simp only
  refine SameLen.trans (b := { s with secConn := s.secConn.set k false }) ⟨rfl, by simp, rfl, rfl, rfl⟩ ?_
  exact SameLen.trans (sameLen_foldl _ (fun s' l => sameLen_lineDisconnect s' l) _ _) (sameLen_foldl _ (fun s' sw => sameLen_swOpen C s' sw) _ _)

theorem sameLen_secConnectManually (C : Cfg) (s : St) (k : Nat) : SameLen s (secConnectManually C s k) := by
  unfold secConnectManually
  simp only
  refine SameLen.trans (b := { s with secConn := s.secConn.set k true }) ⟨rfl, by simp, rfl, rfl, rfl⟩ ?_
  refine SameLen.trans (sameLen_foldl _ ?_ _ _) (sameLen_foldl _ ?_ _ _)
  · intro s' l
    cases (C.lines.getD l default).cb with
    | none => exact sameLen_lineConnect s' l
    | some c => simp only; split_ifs; exact SameLen.refl _; exact sameLen_lineConnect s' l
  · intro s' sw
    cases sw with
    | breaker c => exact SameLen.refl _
    | discon d =>
      simp only
      split_ifs
      · exact SameLen.refl _
      · cases (C.lines.getD (C.disconLine.getD d 0) default).cb with
        | none => exact sameLen_disconClose C s' d
        | some c => simp only; split_ifs; exact SameLen.refl _; exact sameLen_disconClose C s' d

/-! ### the invariant -/

def Safe (C : Cfg) (s : St) (n : Nat) : Prop :=
  gb s.cbOpen (netOf C n).cb = false → ∀ l ∈ (netOf C n).lines, gb s.failed l = true → gb s.conn l = false

def Out (C : Cfg) (s : St) (n : Nat) : Prop :=
  ∀ k ∈ (netOf C n).secs, gb s.secConn k = false → k ∉ s.failedSecs.getD n [] → ∀ l ∈ (secOf C k).lines, gb s.conn l = false

def headSec (C : Cfg) (n : Nat) : Nat := (lineOf C (netOf C n).connLine).sec

def Head (C : Cfg) (s : St) (n : Nat) : Prop :=
  gb s.secConn (headSec C n) = false → headSec C n ∈ s.failedSecs.getD n []

structure Inv (C : Cfg) (s : St) : Prop where
  sz : Sz C s
  safe : ∀ n < C.nets.length, Safe C s n
  out : ∀ n < C.nets.length, Out C s n
  head : ∀ n < C.nets.length, Head C s n
  fs : ∀ n < C.nets.length, ∀ k ∈ s.failedSecs.getD n [], k ∈ (netOf C n).secs

/-- the invariant implies the observable C05 predicate -/
theorem Inv.isolatedOK {C : Cfg} {s : St} (h : Inv C s) : isolatedOK C s = true := by
  unfold Relsad.Control.isolatedOK
  rw [List.all_eq_true]
  intro n hn
  have hn' : n < C.nets.length := List.mem_range.mp hn
  have hs := h.safe n hn'
  unfold Safe netOf at hs
  show (gb s.cbOpen (C.nets.getD n default).cb || (C.nets.getD n default).lines.all (fun l => !(gb s.failed l && gb s.conn l))) = true
  rw [Bool.or_eq_true]
  by_cases hcb : gb s.cbOpen (C.nets.getD n default).cb = true
  · exact Or.inl hcb
  · right
    have hcb' : gb s.cbOpen (C.nets.getD n default).cb = false := by simpa using hcb
    rw [List.all_eq_true]
    intro l hl
    cases hf : gb s.failed l
    · simp
    · simp [hs hcb' l hl hf]

/-! ### "quiet" operations: they only open, and leave failures, section states and failed-section lists alone -/

structure Quiet (s s' : St) : Prop where
  opens : Opens s s'
  failed : s'.failed = s.failed
  secConn : s'.secConn = s.secConn
  failedSecs : s'.failedSecs = s.failedSecs
  len : SameLen s s'

theorem Quiet.refl (s : St) : Quiet s s := ⟨Opens.refl s, rfl, rfl, rfl, SameLen.refl s⟩
theorem Quiet.trans {a b c : St} (h1 : Quiet a b) (h2 : Quiet b c) : Quiet a c :=
  ⟨Opens.trans h1.opens h2.opens, h2.failed.trans h1.failed, h2.secConn.trans h1.secConn, h2.failedSecs.trans h1.failedSecs, SameLen.trans h1.len h2.len⟩

theorem quiet_foldl {α : Type} (f : St → α → St) (hf : ∀ s a, Quiet s (f s a)) (l : List α) (s : St) :
    Quiet s (l.foldl f s) := by
  induction l generalizing s with
  | nil => exact Quiet.refl s
  | cons a as ih => exact Quiet.trans (hf s a) (ih (f s a))

theorem quiet_lineDisconnect (s : St) (l : Nat) : Quiet s (lineDisconnect s l) :=
  ⟨opens_lineDisconnect s l, rfl, rfl, rfl, sameLen_lineDisconnect s l⟩

theorem quiet_disconOpen (C : Cfg) (s : St) (d : Nat) : Quiet s (disconOpen C s d) :=
  ⟨opens_disconOpen C s d, rfl, rfl, rfl, sameLen_disconOpen C s d⟩

theorem quiet_cbOpenOp (C : Cfg) (s : St) (c : Nat) : Quiet s (cbOpenOp C s c) := by
  refine ⟨opens_cbOpenOp C s c, ?_, ?_, ?_, sameLen_cbOpenOp C s c⟩
  all_goals
    unfold cbOpenOp
    simp only [lineDisconnect]
    have := quiet_foldl (fun (s : St) d => if gb s.dOpen d then s else disconOpen C s d)
      (fun s' d => by
        show Quiet s' (if gb s'.dOpen d then s' else disconOpen C s' d)
        split_ifs
        · exact Quiet.refl _
        · exact quiet_disconOpen C s' d)
      (C.lines.getD (C.cbLine.getD c 0) default).discons { s with cbOpen := s.cbOpen.set c true }
  · exact this.failed
  · exact this.secConn
  · exact this.failedSecs

theorem quiet_swOpen (C : Cfg) (s : St) (sw : Sw) : Quiet s (swOpen C s sw) := by
  cases sw with
  | discon d => exact quiet_disconOpen C s d
  | breaker c => exact quiet_cbOpenOp C s c

/-- a quiet operation preserves the invariant -/
theorem Inv.of_quiet {C : Cfg} {s s' : St} (h : Inv C s) (q : Quiet s s') : Inv C s' := by
  refine ⟨q.len.sz h.sz, ?_, ?_, ?_, ?_⟩
  rotate_left 3
  · intro n hn k hk; rw [q.failedSecs] at hk; exact h.fs n hn k hk
  · intro n hn hcb l hl hf
    have hcb0 : gb s.cbOpen (netOf C n).cb = false := by
      cases hc : gb s.cbOpen (netOf C n).cb
      · rfl
      · rw [q.opens.cbOpen _ hc] at hcb; exact absurd hcb (by simp)
    rw [q.failed] at hf
    have := h.safe n hn hcb0 l hl hf
    cases hc : gb s'.conn l
    · rfl
    · rw [q.opens.conn l hc] at this; exact absurd this (by simp)
  · intro n hn k hk hsc hfs l hl
    rw [q.secConn] at hsc; rw [q.failedSecs] at hfs
    have := h.out n hn k hk hsc hfs l hl
    cases hc : gb s'.conn l
    · rfl
    · rw [q.opens.conn l hc] at this; exact absurd this (by simp)
  · intro n hn hsc
    rw [q.secConn] at hsc; rw [q.failedSecs]
    exact h.head n hn hsc

/-! ### well-formed configurations -/

structure WF (C : Cfg) : Prop where
  line_net : ∀ l, l < C.lines.length → (lineOf C l).net < C.nets.length
  line_sec_lt : ∀ l, l < C.lines.length → (lineOf C l).sec < C.secs.length
  line_mem_net : ∀ l, l < C.lines.length → l ∈ (netOf C (lineOf C l).net).lines
  line_sec_mem : ∀ l, l < C.lines.length → (lineOf C l).sec ∈ (netOf C (lineOf C l).net).secs
  line_mem_sec : ∀ l, l < C.lines.length → l ∈ (secOf C (lineOf C l).sec).lines
  line_discons : ∀ l, l < C.lines.length → ∀ d ∈ (lineOf C l).discons, d < C.disconLine.length ∧ C.disconLine.getD d 0 = l
  discon_lt : ∀ d, d < C.disconLine.length → C.disconLine.getD d 0 < C.lines.length
  cb_lt : ∀ n, n < C.nets.length → (netOf C n).cb < C.cbLine.length
  cb_line : ∀ n, n < C.nets.length → C.cbLine.getD (netOf C n).cb 0 = (netOf C n).connLine
  conn_lt : ∀ n, n < C.nets.length → (netOf C n).connLine < C.lines.length
  conn_net : ∀ n, n < C.nets.length → (lineOf C (netOf C n).connLine).net = n
  net_lines : ∀ n, n < C.nets.length → ∀ l ∈ (netOf C n).lines, l < C.lines.length ∧ (lineOf C l).net = n
  children : ∀ n, n < C.nets.length → ∀ m ∈ (netOf C n).children, m < C.nets.length ∧ m ≠ n
  sec_lt : ∀ n, n < C.nets.length → ∀ k ∈ (netOf C n).secs, k < C.secs.length
  sec_lines : ∀ n, n < C.nets.length → ∀ k ∈ (netOf C n).secs, ∀ l ∈ (secOf C k).lines,
    l < C.lines.length ∧ (lineOf C l).sec = k ∧ (lineOf C l).net = n
  sec_discon : ∀ n, n < C.nets.length → ∀ k ∈ (netOf C n).secs, ∀ d, Sw.discon d ∈ (secOf C k).switches →
    d < C.disconLine.length ∧ (lineOf C (C.disconLine.getD d 0)).net = n
  sec_breaker : ∀ n, n < C.nets.length → ∀ k ∈ (netOf C n).secs, ∀ c, Sw.breaker c ∈ (secOf C k).switches →
    c = (netOf C n).cb ∧ (netOf C n).connLine ∈ (secOf C k).lines
  cb_inj : ∀ n m, n < C.nets.length → m < C.nets.length → (netOf C m).cb = (netOf C n).cb → m = n
  secs_disj : ∀ n m, n < C.nets.length → m < C.nets.length → ∀ k ∈ (netOf C n).secs, k ∈ (netOf C m).secs → m = n

theorem wfLine_spec (C : Cfg) (l : Nat) (h : wfLine C l = true) :
    (lineOf C l).net < C.nets.length ∧ (lineOf C l).sec < C.secs.length ∧ l ∈ (netOf C (lineOf C l).net).lines ∧
    (lineOf C l).sec ∈ (netOf C (lineOf C l).net).secs ∧ l ∈ (secOf C (lineOf C l).sec).lines ∧
    ∀ d ∈ (lineOf C l).discons, d < C.disconLine.length ∧ C.disconLine.getD d 0 = l := by
  unfold wfLine at h
  simp only [Bool.and_eq_true, decide_eq_true_eq, List.contains_iff_mem, List.all_eq_true, beq_iff_eq] at h
  obtain ⟨⟨⟨⟨⟨h1, h2⟩, h3⟩, h4⟩, h5⟩, h6⟩ := h
  exact ⟨h1, h2, h3, h4, h5, h6⟩

theorem wfSec_spec (C : Cfg) (n k : Nat) (h : wfSec C n k = true) :
    k < C.secs.length ∧
    (∀ l ∈ (secOf C k).lines, l < C.lines.length ∧ (lineOf C l).sec = k ∧ (lineOf C l).net = n) ∧
    (∀ d, Sw.discon d ∈ (secOf C k).switches → d < C.disconLine.length ∧ (lineOf C (C.disconLine.getD d 0)).net = n) ∧
    (∀ c, Sw.breaker c ∈ (secOf C k).switches → c = (netOf C n).cb ∧ (netOf C n).connLine ∈ (secOf C k).lines) := by
  unfold wfSec at h
  simp only [Bool.and_eq_true, decide_eq_true_eq, List.all_eq_true, beq_iff_eq] at h
  obtain ⟨⟨h1, h2⟩, h3⟩ := h
  refine ⟨h1, fun l hl => ⟨(h2 l hl).1.1, (h2 l hl).1.2, (h2 l hl).2⟩, ?_, ?_⟩
  · intro d hd
    have := h3 _ hd
    simpa [wfSw] using this
  · intro c hc
    have := h3 _ hc
    simpa [wfSw, List.contains_iff_mem] using this


theorem wfNet_spec (C : Cfg) (n : Nat) (h : wfNet C n = true) :
    (netOf C n).cb < C.cbLine.length ∧ C.cbLine.getD (netOf C n).cb 0 = (netOf C n).connLine ∧
    (netOf C n).connLine < C.lines.length ∧ (lineOf C (netOf C n).connLine).net = n ∧
    (∀ l ∈ (netOf C n).lines, l < C.lines.length ∧ (lineOf C l).net = n) ∧
    (∀ m ∈ (netOf C n).children, m < C.nets.length ∧ m ≠ n) ∧
    (∀ k ∈ (netOf C n).secs, wfSec C n k = true) ∧
    (∀ m, m < C.nets.length → m ≠ n → (netOf C m).cb ≠ (netOf C n).cb ∧ ∀ k ∈ (netOf C n).secs, k ∉ (netOf C m).secs) := by
  unfold wfNet at h
  simp only [Bool.and_eq_true, decide_eq_true_eq, List.all_eq_true, beq_iff_eq, bne_iff_ne, ne_eq, List.mem_range,
    Bool.or_eq_true, Bool.not_eq_true', List.contains_eq_mem, decide_eq_false_iff_not] at h
  obtain ⟨⟨⟨⟨⟨⟨⟨h1, h2⟩, h3⟩, h4⟩, h5⟩, h6⟩, h7⟩, h8⟩ := h
  refine ⟨h1, h2, h3, h4, h5, h6, h7, ?_⟩
  intro m hm hne
  rcases h8 m hm with h | h
  · exact absurd h hne
  · exact h

theorem WF.of_wfB (C : Cfg) (h : wfB C = true) : WF C := by
  unfold wfB at h
  simp only [Bool.and_eq_true, List.all_eq_true, List.mem_range, decide_eq_true_eq] at h
  obtain ⟨⟨hl, hd⟩, hn⟩ := h
  have L := fun l hl' => wfLine_spec C l (hl l hl')
  have N := fun n hn' => wfNet_spec C n (hn n hn')
  have S := fun n hn' k hk => wfSec_spec C n k ((N n hn').2.2.2.2.2.2.1 k hk)
  refine ⟨fun l h => (L l h).1, fun l h => (L l h).2.1, fun l h => (L l h).2.2.1, fun l h => (L l h).2.2.2.1,
    fun l h => (L l h).2.2.2.2.1, fun l h => (L l h).2.2.2.2.2, ?_, fun n h => (N n h).1, fun n h => (N n h).2.1,
    fun n h => (N n h).2.2.1, fun n h => (N n h).2.2.2.1, fun n h => (N n h).2.2.2.2.1, fun n h => (N n h).2.2.2.2.2.1,
    fun n h k hk => (S n h k hk).1, fun n h k hk => (S n h k hk).2.1, fun n h k hk => (S n h k hk).2.2.1,
    fun n h k hk => (S n h k hk).2.2.2, ?_, ?_⟩
  · intro d hd'
    have : C.disconLine.getD d 0 ∈ C.disconLine := by
      rw [List.getD_eq_getElem?_getD, List.getElem?_eq_getElem hd']; simp
    exact hd _ this
  · intro n m hn' hm' hcb
    by_contra hne
    exact ((N n hn').2.2.2.2.2.2.2 m hm' hne).1 hcb
  · intro n m hn' hm' k hk hk'
    by_contra hne
    exact ((N n hn').2.2.2.2.2.2.2 m hm' hne).2 k hk hk'


/-! ### the invariant reads only some fields -/

theorem Inv.congr {C : Cfg} {s s' : St} (h : Inv C s) (hc : s'.conn = s.conn) (hf : s'.failed = s.failed)
    (hb : s'.cbOpen = s.cbOpen) (hs : s'.secConn = s.secConn) (hfs : s'.failedSecs = s.failedSecs)
    (hk : s'.check.length = s.check.length) : Inv C s' := by
  refine ⟨⟨by rw [hc]; exact h.sz.conn, by rw [hs]; exact h.sz.secConn, by rw [hb]; exact h.sz.cbOpen, hk.trans h.sz.check,
    by rw [hfs]; exact h.sz.failedSecs⟩, ?_, ?_, ?_, ?_⟩
  · intro n hn; unfold Safe; rw [hb, hf, hc]; exact h.safe n hn
  · intro n hn; unfold Out; rw [hs, hfs, hc]; exact h.out n hn
  · intro n hn; unfold Head; rw [hs, hfs]; exact h.head n hn
  · intro n hn; rw [hfs]; exact h.fs n hn

theorem headSec_mem {C : Cfg} (w : WF C) (n : Nat) (hn : n < C.nets.length) : headSec C n ∈ (netOf C n).secs := by
  have := w.line_sec_mem (netOf C n).connLine (w.conn_lt n hn)
  rw [w.conn_net n hn] at this
  exact this

/-- adding a section of the network to its failed-section list -/
theorem Inv.addFailed {C : Cfg} {s : St} (h : Inv C s) (n k : Nat) (hn : n < C.nets.length) (hk : k ∈ (netOf C n).secs) :
    Inv C { s with failedSecs := s.failedSecs.set n (addUnique (s.failedSecs.getD n []) k) } := by
  have hlen : n < s.failedSecs.length := by rw [h.sz.failedSecs]; exact hn
  have hsub : ∀ x, x ∈ s.failedSecs.getD n [] → x ∈ addUnique (s.failedSecs.getD n []) k := by
    intro x hx; unfold addUnique; split_ifs
    · exact hx
    · exact List.mem_append_left _ hx
  have hmem : ∀ x, x ∈ addUnique (s.failedSecs.getD n []) k → x ∈ s.failedSecs.getD n [] ∨ x = k := by
    intro x hx; unfold addUnique at hx; split_ifs at hx
    · exact Or.inl hx
    · rcases List.mem_append.mp hx with h1 | h1
      · exact Or.inl h1
      · exact Or.inr (by simpa using h1)
  refine ⟨⟨h.sz.conn, h.sz.secConn, h.sz.cbOpen, h.sz.check, by simp [h.sz.failedSecs]⟩, h.safe, ?_, ?_, ?_⟩
  · intro m hm k' hk' hsc hnot l hl
    refine h.out m hm k' hk' hsc ?_ l hl
    intro hin; apply hnot
    show k' ∈ (s.failedSecs.set n _).getD m []
    by_cases hmn : n = m
    · subst hmn; rw [getD_set_self _ _ _ _ hlen]; exact hsub _ hin
    · rw [getD_set_ne _ _ _ _ _ hmn]; exact hin
  · intro m hm hsc
    have := h.head m hm hsc
    show headSec C m ∈ (s.failedSecs.set n _).getD m []
    by_cases hmn : n = m
    · subst hmn; rw [getD_set_self _ _ _ _ hlen]; exact hsub _ this
    · rw [getD_set_ne _ _ _ _ _ hmn]; exact this
  · intro m hm k' hk'
    change k' ∈ (s.failedSecs.set n _).getD m [] at hk'
    by_cases hmn : n = m
    · subst hmn; rw [getD_set_self _ _ _ _ hlen] at hk'
      rcases hmem _ hk' with h1 | h1
      · exact h.fs n hm k' h1
      · rw [h1]; exact hk
    · rw [getD_set_ne _ _ _ _ _ hmn] at hk'; exact h.fs m hm k' hk'

/-- marking a section that is listed as failed as out of service -/
theorem Inv.flag {C : Cfg} {s : St} (w : WF C) (h : Inv C s) (n k : Nat) (hn : n < C.nets.length) (hk : k ∈ (netOf C n).secs)
    (hfs : k ∈ s.failedSecs.getD n []) : Inv C { s with secConn := s.secConn.set k false } := by
  refine ⟨⟨h.sz.conn, by simp [h.sz.secConn], h.sz.cbOpen, h.sz.check, h.sz.failedSecs⟩, h.safe, ?_, ?_, h.fs⟩
  · intro m hm k' hk' hsc hnot l hl
    change gb (s.secConn.set k false) k' = false at hsc
    by_cases hkk : k = k'
    · subst hkk
      have : m = n := w.secs_disj n m hn hm k hk hk'
      subst this
      exact absurd hfs hnot
    · rw [gb_set_ne _ _ _ _ hkk] at hsc
      exact h.out m hm k' hk' hsc hnot l hl
  · intro m hm hsc
    change gb (s.secConn.set k false) (headSec C m) = false at hsc
    by_cases hkk : k = headSec C m
    · have : m = n := w.secs_disj n m hn hm k hk (hkk ▸ headSec_mem w m hm)
      subst this
      rw [← hkk]; exact hfs
    · rw [gb_set_ne _ _ _ _ hkk] at hsc
      exact h.head m hm hsc

/-! ### taking a listed section out of service -/

theorem secDisconnect_quiet (C : Cfg) (s : St) (k : Nat) :
    Quiet { s with secConn := s.secConn.set k false } (secDisconnect C s k) := by
  unfold secDisconnect
  simp only
  exact Quiet.trans (quiet_foldl _ (fun s' l => quiet_lineDisconnect s' l) _ _) (quiet_foldl _ (fun s' sw => quiet_swOpen C s' sw) _ _)

theorem Inv.afterSecDisconnect {C : Cfg} {s : St} (w : WF C) (h : Inv C s) (n k : Nat) (hn : n < C.nets.length)
    (hfs : k ∈ s.failedSecs.getD n []) : Inv C (secDisconnect C s k) :=
  (Inv.flag w h n k hn (h.fs n hn k hfs) hfs).of_quiet (secDisconnect_quiet C s k)

theorem secDisconnect_failedSecs (C : Cfg) (s : St) (k : Nat) : (secDisconnect C s k).failedSecs = s.failedSecs :=
  (secDisconnect_quiet C s k).failedSecs
theorem secDisconnect_failed (C : Cfg) (s : St) (k : Nat) : (secDisconnect C s k).failed = s.failed :=
  (secDisconnect_quiet C s k).failed
theorem secDisconnect_secConn (C : Cfg) (s : St) (k : Nat) : (secDisconnect C s k).secConn = s.secConn.set k false :=
  (secDisconnect_quiet C s k).secConn


theorem foldl_lineDisconnect_out (ls : List Nat) (s : St) (l : Nat) (hl : l ∈ ls) (hlen : l < s.conn.length) :
    gb (ls.foldl lineDisconnect s).conn l = false := by
  induction ls generalizing s with
  | nil => cases hl
  | cons a as ih =>
    simp only [List.foldl_cons]
    have hlen' : l < (lineDisconnect s a).conn.length := by simp [lineDisconnect, hlen]
    rcases List.mem_cons.mp hl with rfl | hl'
    · have h0 : gb (lineDisconnect s l).conn l = false := by
        simp only [lineDisconnect]; rw [gb_set, if_pos ⟨rfl, hlen⟩]
      cases h : gb (as.foldl lineDisconnect (lineDisconnect s l)).conn l
      · rfl
      · have := (opens_foldl _ (fun s' x => opens_lineDisconnect s' x) as (lineDisconnect s l)).conn l h
        rw [h0] at this; exact absurd this (by simp)
    · exact ih _ hl' hlen'

theorem secDisconnect_lines_out (C : Cfg) (s : St) (k : Nat) (l : Nat)
    (hl : l ∈ (secOf C k).lines) (hlen : l < s.conn.length) : gb (secDisconnect C s k).conn l = false := by
  unfold secDisconnect
  simp only
  have h1 := foldl_lineDisconnect_out (C.secs.getD k default).lines { s with secConn := s.secConn.set k false } l hl hlen
  cases h : gb (List.foldl (swOpen C) (List.foldl lineDisconnect { s with secConn := s.secConn.set k false } (C.secs.getD k default).lines)
      (C.secs.getD k default).switches).conn l
  · rfl
  · have := (opens_foldl _ (fun s' sw => opens_swOpen C s' sw) (C.secs.getD k default).switches _).conn l h
    rw [h1] at this; exact absurd this (by simp)

theorem opens_secDisconnect' (C : Cfg) (s : St) (k : Nat) : Opens s (secDisconnect C s k) := opens_secDisconnect C s k

/-- what the disconnection of all listed sections achieves -/
structure DiscAll (C : Cfg) (ks : List Nat) (s r : St) : Prop where
  inv : Inv C r
  failed : r.failed = s.failed
  failedSecs : r.failedSecs = s.failedSecs
  opens : Opens s r
  secMono : ∀ j, gb r.secConn j = true → gb s.secConn j = true
  secSame : ∀ j, j ∉ ks → gb r.secConn j = gb s.secConn j
  out : ∀ k ∈ ks, ∀ l ∈ (secOf C k).lines, l < C.lines.length → gb r.conn l = false

theorem discAll {C : Cfg} (w : WF C) (n : Nat) (hn : n < C.nets.length) (ks : List Nat) (s : St) (h : Inv C s)
    (hks : ∀ k ∈ ks, k ∈ s.failedSecs.getD n []) : DiscAll C ks s (ks.foldl (secDisconnect C) s) := by
  induction ks generalizing s with
  | nil => exact ⟨h, rfl, rfl, Opens.refl s, fun _ hj => hj, fun _ _ => rfl, fun k hk => by cases hk⟩
  | cons a as ih =>
    simp only [List.foldl_cons]
    have ha : a ∈ s.failedSecs.getD n [] := hks a List.mem_cons_self
    have h1 : Inv C (secDisconnect C s a) := Inv.afterSecDisconnect w h n a hn ha
    have hks' : ∀ k ∈ as, k ∈ (secDisconnect C s a).failedSecs.getD n [] := by
      intro k hk; rw [secDisconnect_failedSecs]; exact hks k (List.mem_cons_of_mem _ hk)
    have r := ih (secDisconnect C s a) h1 hks'
    refine ⟨r.inv, r.failed.trans (secDisconnect_failed C s a), r.failedSecs.trans (secDisconnect_failedSecs C s a),
      Opens.trans (opens_secDisconnect C s a) r.opens, ?_, ?_, ?_⟩
    · intro j hj
      have := r.secMono j hj
      rw [secDisconnect_secConn] at this
      exact (gb_set_true_imp _ _ _ this).1
    · intro j hj
      have hja : a ≠ j := fun e => hj (e ▸ List.mem_cons_self)
      have hjas : j ∉ as := fun e => hj (List.mem_cons_of_mem _ e)
      rw [r.secSame j hjas, secDisconnect_secConn, gb_set_ne _ _ _ _ hja]
    · intro k hk l hl hlen
      rcases List.mem_cons.mp hk with rfl | hk'
      · have h0 := secDisconnect_lines_out C s k l hl (by rw [h.sz.conn]; exact hlen)
        cases hc : gb (List.foldl (secDisconnect C) (secDisconnect C s k) as).conn l
        · rfl
        · rw [r.opens.conn l hc] at h0; exact absurd h0 (by simp)
      · exact r.out k hk' l hl hlen


/-! ### "connecting" operations: which lines may be put in service -/

structure Conn (P : Nat → Prop) (s s' : St) : Prop where
  failed : s'.failed = s.failed
  cbOpen : s'.cbOpen = s.cbOpen
  secConn : s'.secConn = s.secConn
  failedSecs : s'.failedSecs = s.failedSecs
  len : SameLen s s'
  conn : ∀ i, gb s'.conn i = true → gb s.conn i = true ∨ P i

theorem Conn.refl (P : Nat → Prop) (s : St) : Conn P s s := ⟨rfl, rfl, rfl, rfl, SameLen.refl s, fun _ h => Or.inl h⟩

theorem Conn.trans {P : Nat → Prop} {a b c : St} (h1 : Conn P a b) (h2 : Conn P b c) : Conn P a c :=
  ⟨h2.failed.trans h1.failed, h2.cbOpen.trans h1.cbOpen, h2.secConn.trans h1.secConn, h2.failedSecs.trans h1.failedSecs,
   SameLen.trans h1.len h2.len, fun i h => by
     rcases h2.conn i h with h' | h'
     · exact h1.conn i h'
     · exact Or.inr h'⟩

theorem conn_lineConnect (P : Nat → Prop) (s : St) (l : Nat) (hP : P l) : Conn P s (lineConnect s l) := by
  refine ⟨rfl, rfl, rfl, rfl, sameLen_lineConnect s l, ?_⟩
  intro i h
  simp only [lineConnect] at h
  rw [gb_set] at h
  by_cases hc : l = i ∧ l < s.conn.length
  · right; rw [← hc.1]; exact hP
  · rw [if_neg hc] at h; exact Or.inl h

theorem conn_disconClose (P : Nat → Prop) (C : Cfg) (s : St) (d : Nat) (hP : P (C.disconLine.getD d 0)) :
    Conn P s (disconClose C s d) := by
  unfold disconClose
  exact Conn.trans (b := { s with dOpen := s.dOpen.set d false }) ⟨rfl, rfl, rfl, rfl, ⟨rfl, rfl, rfl, rfl, rfl⟩, fun _ h => Or.inl h⟩
    (conn_lineConnect P _ _ hP)

/-- fold of connecting steps whose permission may depend on the (constant) section states -/
theorem conn_foldl {α : Type} (P : Nat → Prop) (f : St → α → St) (l : List α) (s0 : St)
    (hf : ∀ s a, a ∈ l → s.secConn = s0.secConn → Conn P s (f s a)) (s : St) (hs : s.secConn = s0.secConn) :
    Conn P s (l.foldl f s) := by
  induction l generalizing s with
  | nil => exact Conn.refl P s
  | cons a as ih =>
    simp only [List.foldl_cons]
    have h1 := hf s a List.mem_cons_self hs
    exact Conn.trans h1 (ih (fun s' a' ha' hs' => hf s' a' (List.mem_cons_of_mem _ ha') hs') (f s a) (h1.secConn.trans hs))

/-- lines that reconnecting section `k` may put in service: its own lines, and lines carrying one of its
disconnectors whose own section is in service -/
def MayConnect (C : Cfg) (sc : List Bool) (k : Nat) (i : Nat) : Prop :=
  i ∈ (secOf C k).lines ∨ ∃ d, Sw.discon d ∈ (secOf C k).switches ∧ C.disconLine.getD d 0 = i ∧ gb sc (lineOf C i).sec = true

theorem secConnectManually_conn (C : Cfg) (s : St) (k : Nat) :
    Conn (MayConnect C (s.secConn.set k true) k) { s with secConn := s.secConn.set k true } (secConnectManually C s k) := by
  unfold secConnectManually
  simp only
  set s1 : St := { s with secConn := s.secConn.set k true } with hs1
  refine Conn.trans (b := (C.secs.getD k default).lines.foldl (fun s l =>
      match (C.lines.getD l default).cb with
      | some c => if gb s.cbOpen c then s else lineConnect s l
      | none => lineConnect s l) s1) ?_ ?_
  · refine conn_foldl _ _ _ s1 ?_ s1 rfl
    intro s' l hl _
    have hP : MayConnect C (s.secConn.set k true) k l := Or.inl hl
    cases (C.lines.getD l default).cb with
    | none => exact conn_lineConnect _ s' l hP
    | some c =>
      simp only
      split_ifs
      · exact Conn.refl _ _
      · exact conn_lineConnect _ s' l hP
  · refine conn_foldl _ _ _ s1 ?_ _ ?_
    · intro s' sw hsw hsc
      cases sw with
      | breaker c => exact Conn.refl _ _
      | discon d =>
        simp only
        split_ifs with h1
        · exact Conn.refl _ _
        · have hP : MayConnect C (s.secConn.set k true) k (C.disconLine.getD d 0) := by
            right
            refine ⟨d, hsw, rfl, ?_⟩
            rw [hsc] at h1
            simpa [lineOf] using h1
          cases (C.lines.getD (C.disconLine.getD d 0) default).cb with
          | none => exact conn_disconClose _ C s' d hP
          | some c =>
            simp only
            split_ifs
            · exact Conn.refl _ _
            · exact conn_disconClose _ C s' d hP
    · exact (conn_foldl (MayConnect C (s.secConn.set k true) k) _ _ s1 (by
        intro s' l hl _
        have hP : MayConnect C (s.secConn.set k true) k l := Or.inl hl
        cases (C.lines.getD l default).cb with
        | none => exact conn_lineConnect _ s' l hP
        | some c =>
          simp only
          split_ifs
          · exact Conn.refl _ _
          · exact conn_lineConnect _ s' l hP) s1 rfl).secConn


/-! ### reconnecting -/

def NoFailedIn (C : Cfg) (s : St) (k : Nat) : Prop := ∀ l ∈ (secOf C k).lines, gb s.failed l = false

/-- every in-service section of network `n` is free of failed lines (holds right after the line check) -/
def AllClear (C : Cfg) (s : St) (n : Nat) : Prop := ∀ k ∈ (netOf C n).secs, gb s.secConn k = true → NoFailedIn C s k

/-- a connecting step keeps the invariant when every line it may put in service is healthy and its section in service -/
theorem Inv.of_conn {C : Cfg} {P : Nat → Prop} {s s' : St} (w : WF C) (h : Inv C s) (c : Conn P s s')
    (hPok : ∀ i, P i → gb s.failed i = false) (hPsec : ∀ i, P i → gb s.secConn (lineOf C i).sec = true) : Inv C s' := by
  refine ⟨c.len.sz h.sz, ?_, ?_, ?_, ?_⟩
  · intro m hm hcb l hl hf
    rw [c.cbOpen] at hcb; rw [c.failed] at hf
    cases hc : gb s'.conn l
    · rfl
    · rcases c.conn l hc with h1 | h1
      · rw [h.safe m hm hcb l hl hf] at h1; exact absurd h1 (by simp)
      · rw [hPok l h1] at hf; exact absurd hf (by simp)
  · intro m hm k hk hsc hnot l hl
    rw [c.secConn] at hsc; rw [c.failedSecs] at hnot
    cases hc : gb s'.conn l
    · rfl
    · rcases c.conn l hc with h1 | h1
      · rw [h.out m hm k hk hsc hnot l hl] at h1; exact absurd h1 (by simp)
      · have := hPsec l h1
        rw [(w.sec_lines m hm k hk l hl).2.1, hsc] at this; exact absurd this (by simp)
  · intro m hm hsc
    rw [c.secConn] at hsc; rw [c.failedSecs]; exact h.head m hm hsc
  · intro m hm k hk; rw [c.failedSecs] at hk; exact h.fs m hm k hk

theorem Inv.unflag {C : Cfg} {s : St} (h : Inv C s) (k : Nat) : Inv C { s with secConn := s.secConn.set k true } := by
  have key : ∀ j, gb (s.secConn.set k true) j = false → gb s.secConn j = false := by
    intro j hj
    rw [gb_set] at hj
    by_cases hc : k = j ∧ k < s.secConn.length
    · rw [if_pos hc] at hj; exact absurd hj (by simp)
    · rw [if_neg hc] at hj; exact hj
  refine ⟨⟨h.sz.conn, by simp [h.sz.secConn], h.sz.cbOpen, h.sz.check, h.sz.failedSecs⟩, h.safe, ?_, ?_, h.fs⟩
  · intro m hm k' hk' hsc hnot l hl
    exact h.out m hm k' hk' (key _ hsc) hnot l hl
  · intro m hm hsc
    exact h.head m hm (key _ hsc)

theorem Inv.reconnect {C : Cfg} {s : St} (w : WF C) (h : Inv C s) (n k : Nat) (hn : n < C.nets.length)
    (hk : k ∈ (netOf C n).secs) (hA : AllClear C s n) (hNF : NoFailedIn C s k) :
    Inv C (secConnectManually C s k) ∧ AllClear C (secConnectManually C s k) n ∧
    (secConnectManually C s k).secConn = s.secConn.set k true ∧ (secConnectManually C s k).failed = s.failed ∧
    (secConnectManually C s k).failedSecs = s.failedSecs ∧ (secConnectManually C s k).cbOpen = s.cbOpen := by
  have c := secConnectManually_conn C s k
  set s1 : St := { s with secConn := s.secConn.set k true } with hs1
  have hklt : k < s.secConn.length := by rw [h.sz.secConn]; exact w.sec_lt n hn k hk
  have hA1 : AllClear C s1 n := by
    intro k' hk' hsc l hl
    change gb (s.secConn.set k true) k' = true at hsc
    by_cases hkk : k = k'
    · subst hkk; exact hNF l hl
    · rw [gb_set_ne _ _ _ _ hkk] at hsc; exact hA k' hk' hsc l hl
  have hOk : ∀ i, MayConnect C (s.secConn.set k true) k i → gb s1.failed i = false := by
    intro i hi
    rcases hi with hi | ⟨d, hd, hdi, hsc⟩
    · exact hNF i hi
    · have hd' := w.sec_discon n hn k hk d hd
      rw [hdi] at hd'
      have hilt : i < C.lines.length := hdi ▸ w.discon_lt d hd'.1
      have hsec : (lineOf C i).sec ∈ (netOf C n).secs := by
        have := w.line_sec_mem i hilt; rw [hd'.2] at this; exact this
      exact hA1 _ hsec hsc i (w.line_mem_sec i hilt)
  have hSec : ∀ i, MayConnect C (s.secConn.set k true) k i → gb s1.secConn (lineOf C i).sec = true := by
    intro i hi
    rcases hi with hi | ⟨d, hd, hdi, hsc⟩
    · rw [(w.sec_lines n hn k hk i hi).2.1]
      exact gb_set_self _ _ _ hklt
    · exact hsc
  have hinv : Inv C (secConnectManually C s k) := Inv.of_conn w (h.unflag k) c hOk hSec
  refine ⟨hinv, ?_, c.secConn, c.failed, c.failedSecs, c.cbOpen⟩
  intro k' hk' hsc l hl
  rw [c.secConn] at hsc; rw [c.failed]
  exact hA1 k' hk' hsc l hl


/-! ### the controller's line check -/

theorem anyFailed_false_iff (C : Cfg) (s : St) (k : Nat) : anyFailed s (secOf C k).lines = false ↔ NoFailedIn C s k := by
  unfold anyFailed NoFailedIn
  rw [List.any_eq_false]
  constructor
  · intro h l hl; simpa using h l hl
  · intro h l hl; simp [h l hl]

/-- flagging step of `check_lines_manually` -/
def flagStep (C : Cfg) (n : Nat) (s : St) (k : Nat) : St :=
  let sc := C.secs.getD k default
  if anyFailed s sc.lines then
    let s' := { s with secConn := s.secConn.set k false,
                       failedSecs := s.failedSecs.set n (addUnique (s.failedSecs.getD n []) k),
                       timer := s.timer.set n C.T }
    sc.lines.foldl (fun s l => { s with rem := s.rem.set l (gr s.rem l + C.T) }) s'
  else s

/-- reconnecting step of `check_lines_manually` -/
def recoStep (C : Cfg) (n : Nat) (s : St) (k : Nat) : St :=
  let sc := C.secs.getD k default
  if anyFailed s sc.lines then s
  else
    let s' := secConnectManually C s k
    { s' with failedSecs := s'.failedSecs.set n ((s'.failedSecs.getD n []).filter (· != k)) }

theorem checkLinesManually_eq (C : Cfg) (s : St) (n : Nat) :
    checkLinesManually C s n =
      ((netOf C n).secs.filter (fun k => !gb s.secConn k)).foldl (recoStep C n)
        (((netOf C n).secs.filter (fun k => gb s.secConn k)).foldl (flagStep C n) s) := rfl

theorem remFold_fields (T : ℚ) (ls : List Nat) (s : St) :
    let r := ls.foldl (fun (s : St) l => { s with rem := s.rem.set l (gr s.rem l + T) }) s
    r.conn = s.conn ∧ r.failed = s.failed ∧ r.cbOpen = s.cbOpen ∧ r.secConn = s.secConn ∧ r.failedSecs = s.failedSecs ∧ r.check = s.check := by
  induction ls generalizing s with
  | nil => exact ⟨rfl, rfl, rfl, rfl, rfl, rfl⟩
  | cons a as ih => simp only [List.foldl_cons]; exact ih _

theorem flagStep_spec {C : Cfg} (w : WF C) (n : Nat) (hn : n < C.nets.length) (s : St) (h : Inv C s) (k : Nat)
    (hk : k ∈ (netOf C n).secs) :
    Inv C (flagStep C n s k) ∧ (flagStep C n s k).failed = s.failed ∧ (flagStep C n s k).conn = s.conn ∧
    (flagStep C n s k).cbOpen = s.cbOpen ∧
    (flagStep C n s k).secConn = (if anyFailed s (secOf C k).lines then s.secConn.set k false else s.secConn) := by
  unfold flagStep
  simp only
  by_cases hf : anyFailed s (C.secs.getD k default).lines = true
  · have hf' : anyFailed s (secOf C k).lines = true := hf
    rw [if_pos hf, if_pos hf']
    have hflen : n < s.failedSecs.length := by rw [h.sz.failedSecs]; exact hn
    have h1 : Inv C { s with failedSecs := s.failedSecs.set n (addUnique (s.failedSecs.getD n []) k) } := h.addFailed n k hn hk
    have hin : k ∈ ({ s with failedSecs := s.failedSecs.set n (addUnique (s.failedSecs.getD n []) k) } : St).failedSecs.getD n [] := by
      show k ∈ (s.failedSecs.set n _).getD n []
      rw [getD_set_self _ _ _ _ hflen]
      unfold addUnique; split_ifs with hc
      · simpa using hc
      · simp
    have h2 := Inv.flag w h1 n k hn hk hin
    have rf := remFold_fields C.T (C.secs.getD k default).lines
      { s with secConn := s.secConn.set k false, failedSecs := s.failedSecs.set n (addUnique (s.failedSecs.getD n []) k), timer := s.timer.set n C.T }
    simp only at rf
    obtain ⟨r1, r2, r3, r4, r5, r6⟩ := rf
    refine ⟨?_, r2, r1, r3, r4⟩
    exact h2.congr r1 r2 r3 r4 r5 (by rw [r6])
  · have hf' : ¬ anyFailed s (secOf C k).lines = true := hf
    rw [if_neg hf, if_neg hf']
    exact ⟨h, rfl, rfl, rfl, rfl⟩

structure FlagAll (C : Cfg) (ks : List Nat) (s r : St) : Prop where
  inv : Inv C r
  failed : r.failed = s.failed
  conn : r.conn = s.conn
  cbOpen : r.cbOpen = s.cbOpen
  secMono : ∀ j, gb r.secConn j = true → gb s.secConn j = true
  clear : ∀ k ∈ ks, gb r.secConn k = true → NoFailedIn C s k

theorem flagAll {C : Cfg} (w : WF C) (n : Nat) (hn : n < C.nets.length) (ks : List Nat) (s : St) (h : Inv C s)
    (hks : ∀ k ∈ ks, k ∈ (netOf C n).secs) : FlagAll C ks s (ks.foldl (flagStep C n) s) := by
  induction ks generalizing s with
  | nil => exact ⟨h, rfl, rfl, rfl, fun _ hj => hj, fun k hk => by cases hk⟩
  | cons a as ih =>
    simp only [List.foldl_cons]
    have ha := hks a List.mem_cons_self
    obtain ⟨i1, f1, c1, b1, sc1⟩ := flagStep_spec w n hn s h a ha
    have r := ih (flagStep C n s a) i1 (fun k hk => hks k (List.mem_cons_of_mem _ hk))
    have mono1 : ∀ j, gb (flagStep C n s a).secConn j = true → gb s.secConn j = true := by
      intro j hj; rw [sc1] at hj
      split_ifs at hj
      · exact (gb_set_true_imp _ _ _ hj).1
      · exact hj
    have nf_eq : ∀ k, NoFailedIn C (flagStep C n s a) k ↔ NoFailedIn C s k := by
      intro k; unfold NoFailedIn; rw [f1]
    refine ⟨r.inv, r.failed.trans f1, r.conn.trans c1, r.cbOpen.trans b1, fun j hj => mono1 j (r.secMono j hj), ?_⟩
    intro k hk hsc
    rcases List.mem_cons.mp hk with rfl | hk'
    · have h1 := r.secMono k hsc
      rw [sc1] at h1
      by_cases hf : anyFailed s (secOf C k).lines = true
      · rw [if_pos hf] at h1
        have hklt : k < s.secConn.length := by rw [h.sz.secConn]; exact w.sec_lt n hn k ha
        rw [gb_set_self _ _ _ hklt] at h1; exact absurd h1 (by simp)
      · exact (anyFailed_false_iff C s k).mp (by simpa using hf)
    · exact (nf_eq k).mp (r.clear k hk' hsc)

theorem Inv.removeFailed {C : Cfg} {s : St} (h : Inv C s) (n k : Nat) (hsc : gb s.secConn k = true) :
    Inv C { s with failedSecs := s.failedSecs.set n ((s.failedSecs.getD n []).filter (· != k)) } := by
  refine ⟨⟨h.sz.conn, h.sz.secConn, h.sz.cbOpen, h.sz.check, by simp [h.sz.failedSecs]⟩, h.safe, ?_, ?_, ?_⟩
  · intro m hm k' hk' hsc' hnot l hl
    refine h.out m hm k' hk' hsc' ?_ l hl
    intro hin; apply hnot
    show k' ∈ (s.failedSecs.set n _).getD m []
    by_cases hmn : n = m
    · subst hmn
      have hlen : n < s.failedSecs.length := by rw [h.sz.failedSecs]; exact hm
      rw [getD_set_self _ _ _ _ hlen, List.mem_filter]
      refine ⟨hin, ?_⟩
      have : k' ≠ k := by intro e; rw [e, hsc] at hsc'; exact absurd hsc' (by simp)
      simpa using this
    · rw [getD_set_ne _ _ _ _ _ hmn]; exact hin
  · intro m hm hsc'
    have hin := h.head m hm hsc'
    show headSec C m ∈ (s.failedSecs.set n _).getD m []
    by_cases hmn : n = m
    · subst hmn
      have hlen : n < s.failedSecs.length := by rw [h.sz.failedSecs]; exact hm
      rw [getD_set_self _ _ _ _ hlen, List.mem_filter]
      refine ⟨hin, ?_⟩
      have : headSec C n ≠ k := by intro e; rw [e, hsc] at hsc'; exact absurd hsc' (by simp)
      simpa using this
    · rw [getD_set_ne _ _ _ _ _ hmn]; exact hin
  · intro m hm k' hk'
    change k' ∈ (s.failedSecs.set n _).getD m [] at hk'
    by_cases hmn : n = m
    · subst hmn
      have hlen : n < s.failedSecs.length := by rw [h.sz.failedSecs]; exact hm
      rw [getD_set_self _ _ _ _ hlen, List.mem_filter] at hk'
      exact h.fs n hm k' hk'.1
    · rw [getD_set_ne _ _ _ _ _ hmn] at hk'; exact h.fs m hm k' hk'

theorem recoStep_spec {C : Cfg} (w : WF C) (n : Nat) (hn : n < C.nets.length) (s : St) (h : Inv C s) (hA : AllClear C s n)
    (k : Nat) (hk : k ∈ (netOf C n).secs) :
    Inv C (recoStep C n s k) ∧ AllClear C (recoStep C n s k) n ∧ (recoStep C n s k).failed = s.failed ∧
    (recoStep C n s k).cbOpen = s.cbOpen := by
  unfold recoStep
  simp only
  by_cases hf : anyFailed s (C.secs.getD k default).lines = true
  · rw [if_pos hf]; exact ⟨h, hA, rfl, rfl⟩
  · rw [if_neg hf]
    have hf' : anyFailed s (secOf C k).lines = false := by
      cases hx : anyFailed s (secOf C k).lines
      · rfl
      · exact absurd hx hf
    have hNF : NoFailedIn C s k := (anyFailed_false_iff C s k).mp hf'
    obtain ⟨i1, a1, sc1, f1, fs1, b1⟩ := Inv.reconnect w h n k hn hk hA hNF
    have hklt : k < s.secConn.length := by rw [h.sz.secConn]; exact w.sec_lt n hn k hk
    have hsck : gb (secConnectManually C s k).secConn k = true := by rw [sc1]; exact gb_set_self _ _ _ hklt
    refine ⟨i1.removeFailed n k hsck, ?_, f1, b1⟩
    intro k' hk' hsc l hl
    exact a1 k' hk' hsc l hl

theorem recoAll {C : Cfg} (w : WF C) (n : Nat) (hn : n < C.nets.length) (ks : List Nat) (s : St) (h : Inv C s)
    (hA : AllClear C s n) (hks : ∀ k ∈ ks, k ∈ (netOf C n).secs) :
    Inv C (ks.foldl (recoStep C n) s) ∧ AllClear C (ks.foldl (recoStep C n) s) n ∧
    (ks.foldl (recoStep C n) s).failed = s.failed ∧ (ks.foldl (recoStep C n) s).cbOpen = s.cbOpen := by
  induction ks generalizing s with
  | nil => exact ⟨h, hA, rfl, rfl⟩
  | cons a as ih =>
    simp only [List.foldl_cons]
    obtain ⟨i1, a1, f1, b1⟩ := recoStep_spec w n hn s h hA a (hks a List.mem_cons_self)
    obtain ⟨i2, a2, f2, b2⟩ := ih (recoStep C n s a) i1 a1 (fun k hk => hks k (List.mem_cons_of_mem _ hk))
    exact ⟨i2, a2, f2.trans f1, b2.trans b1⟩

/-- **the line check** keeps the invariant and leaves every in-service section of the network free of failed lines -/
theorem Inv.checkLines {C : Cfg} {s : St} (w : WF C) (h : Inv C s) (n : Nat) (hn : n < C.nets.length) :
    Inv C (checkLinesManually C s n) ∧ AllClear C (checkLinesManually C s n) n ∧
    (checkLinesManually C s n).failed = s.failed ∧ (checkLinesManually C s n).cbOpen = s.cbOpen := by
  rw [checkLinesManually_eq]
  have fa := flagAll w n hn ((netOf C n).secs.filter (fun k => gb s.secConn k)) s h
    (fun k hk => (List.mem_filter.mp hk).1)
  have hA : AllClear C (((netOf C n).secs.filter (fun k => gb s.secConn k)).foldl (flagStep C n) s) n := by
    intro k hk hsc l hl
    rw [fa.failed]
    have hs := fa.secMono k hsc
    exact fa.clear k (List.mem_filter.mpr ⟨hk, hs⟩) hsc l hl
  obtain ⟨i2, a2, f2, b2⟩ := recoAll w n hn ((netOf C n).secs.filter (fun k => !gb s.secConn k)) _ fa.inv hA
    (fun k hk => (List.mem_filter.mp hk).1)
  exact ⟨i2, a2, f2.trans fa.failed, b2.trans fa.cbOpen⟩


/-! ### the controller's breaker check -/

theorem cbCloseOp_conn {C : Cfg} (w : WF C) (s : St) (n : Nat) (hn : n < C.nets.length) :
    Conn (fun i => i = (netOf C n).connLine) { s with cbOpen := s.cbOpen.set (netOf C n).cb false } (cbCloseOp C s (netOf C n).cb) := by
  unfold cbCloseOp
  simp only
  have hl : C.cbLine.getD (netOf C n).cb 0 = (netOf C n).connLine := w.cb_line n hn
  rw [hl]
  refine Conn.trans (conn_foldl _ _ _ { s with cbOpen := s.cbOpen.set (netOf C n).cb false } ?_ _ rfl) (conn_lineConnect _ _ _ rfl)
  intro s' d hd _
  split_ifs
  · exact conn_disconClose _ C s' d ((w.line_discons _ (w.conn_lt n hn) d hd).2)
  · exact Conn.refl _ _

theorem Inv.closeBreaker {C : Cfg} {s : St} (w : WF C) (h : Inv C s) (n : Nat) (hn : n < C.nets.length)
    (hoff : ∀ l ∈ (netOf C n).lines, gb s.failed l = true → gb s.conn l = false) :
    Inv C { s with cbOpen := s.cbOpen.set (netOf C n).cb false } := by
  refine ⟨⟨h.sz.conn, h.sz.secConn, by simp [h.sz.cbOpen], h.sz.check, h.sz.failedSecs⟩, ?_, h.out, h.head, h.fs⟩
  intro m hm hcb l hl hf
  by_cases hmn : m = n
  · subst hmn; exact hoff l hl hf
  · change gb (s.cbOpen.set (netOf C n).cb false) (netOf C m).cb = false at hcb
    have hne : (netOf C n).cb ≠ (netOf C m).cb := fun e => hmn (w.cb_inj n m hn hm e.symm)
    rw [gb_set_ne _ _ _ _ hne] at hcb
    exact h.safe m hm hcb l hl hf

theorem Inv.checkBreaker {C : Cfg} {s : St} (w : WF C) (h : Inv C s) (n : Nat) (hn : n < C.nets.length)
    (hA : gb s.cbOpen (netOf C n).cb = true → gr s.timer n ≤ 0 → AllClear C s n) :
    Inv C (checkBreakerManually C s n) := by
  unfold checkBreakerManually
  simp only
  split_ifs with h1 h2 h3 h4
  · exact h
  · exact h
  · -- reclosure
    have hopen : gb s.cbOpen (netOf C n).cb = true := by
      cases hx : gb s.cbOpen (netOf C n).cb
      · exact absurd (by simpa [netOf] using hx) h1
      · rfl
    have hAll := hA hopen h3
    set fs := s.failedSecs.getD n [] with hfs
    have d := discAll w n hn fs s h (fun k hk => hk)
    set s1 := fs.foldl (secDisconnect C) s with hs1
    simp only [Bool.and_eq_true, Bool.not_eq_true'] at h4
    obtain ⟨hfail, hnotin⟩ := h4
    have hfail' : gb s1.failed (netOf C n).connLine = false := hfail
    -- the head section is not listed, hence in service
    have hk0 : headSec C n ∉ fs := by
      intro hin
      rw [List.any_eq_false] at hnotin
      have := hnotin _ hin
      apply this
      have hm := w.line_mem_sec (netOf C n).connLine (w.conn_lt n hn)
      simpa [headSec, secOf, netOf, lineOf] using hm
    have hsc0 : gb s1.secConn (headSec C n) = true := by
      cases hx : gb s1.secConn (headSec C n)
      · have := d.inv.head n hn hx
        rw [d.failedSecs] at this; exact absurd this hk0
      · rfl
    have hAll1 : AllClear C s1 n := by
      intro k hk hsc l hl
      rw [d.failed]; exact hAll k hk (d.secMono k hsc) l hl
    -- every failed line of the network is out of service in s1
    have hoff : ∀ l ∈ (netOf C n).lines, gb s1.failed l = true → gb s1.conn l = false := by
      intro l hl hf
      have hlt := (w.net_lines n hn l hl).1
      have hnet := (w.net_lines n hn l hl).2
      have hsec : (lineOf C l).sec ∈ (netOf C n).secs := by have := w.line_sec_mem l hlt; rw [hnet] at this; exact this
      have hmem := w.line_mem_sec l hlt
      cases hx : gb s1.secConn (lineOf C l).sec
      · by_cases hin : (lineOf C l).sec ∈ fs
        · exact d.out _ hin l hmem hlt
        · exact d.inv.out n hn _ hsec hx (by rw [d.failedSecs]; exact hin) l hmem
      · rw [hAll1 _ hsec hx l hmem] at hf; exact absurd hf (by simp)
    have i1 : Inv C { s1 with cbOpen := s1.cbOpen.set (netOf C n).cb false } := d.inv.closeBreaker w n hn hoff
    have c2 := cbCloseOp_conn w s1 n hn
    have hsec0 : (lineOf C (netOf C n).connLine).sec = headSec C n := rfl
    have i2 : Inv C (cbCloseOp C s1 (netOf C n).cb) := Inv.of_conn w i1 c2
      (fun i hi => by rw [hi]; exact hfail') (fun i hi => by rw [hi]; exact hsc0)
    set s2 := cbCloseOp C s1 (netOf C n).cb with hs2
    have hAll2 : AllClear C s2 n := by
      intro k hk hsc l hl
      rw [c2.secConn] at hsc; rw [c2.failed]
      exact hAll1 k hk hsc l hl
    have hNF0 : NoFailedIn C s2 (headSec C n) := hAll2 _ (headSec_mem w n hn) (by rw [c2.secConn]; exact hsc0)
    obtain ⟨i3, a3, sc3, f3, fs3, b3⟩ := Inv.reconnect w i2 n (headSec C n) hn (headSec_mem w n hn) hAll2 hNF0
    have c3 := secConnectManually_conn C s2 (headSec C n)
    set s3 := secConnectManually C s2 (headSec C n) with hs3
    have hfs3 : s3.failedSecs.getD n [] = fs := by rw [fs3, c2.failedSecs]; show s1.failedSecs.getD n [] = fs; rw [d.failedSecs]
    have hk0lt : headSec C n < s2.secConn.length := by rw [i2.sz.secConn]; exact w.sec_lt n hn _ (headSec_mem w n hn)
    -- clearing the list: every out-of-service section of the network has its lines out
    show Inv C { s3 with failedSecs := s3.failedSecs.set n [] }
    have hlen : n < s3.failedSecs.length := by rw [i3.sz.failedSecs]; exact hn
    refine ⟨⟨i3.sz.conn, i3.sz.secConn, i3.sz.cbOpen, i3.sz.check, by simp [i3.sz.failedSecs]⟩, i3.safe, ?_, ?_, ?_⟩
    · intro m hm k hk hsc hnot l hl
      by_cases hmn : n = m
      · subst hmn
        by_cases hin : k ∈ fs
        · -- listed: taken out by the disconnection, and not reconnected since its section stays out
          have hlt := (w.sec_lines n hn k hk l hl).1
          have hsecl := (w.sec_lines n hn k hk l hl).2.1
          have h1off : gb s1.conn l = false := d.out k hin l hl hlt
          cases hx : gb s3.conn l
          · rfl
          · exfalso
            have hsck : gb s3.secConn k = false := hsc
            have hkne : k ≠ headSec C n := by
              intro e; rw [e, sc3, gb_set_self _ _ _ hk0lt] at hsck; exact absurd hsck (by simp)
            rcases c3.conn l hx with h2 | h2
            · rcases c2.conn l h2 with h3' | h3'
              · rw [h1off] at h3'; exact absurd h3' (by simp)
              · apply hkne; rw [← hsecl, h3']; exact hsec0
            · rcases h2 with h2 | ⟨dd, _, hdl, hscl⟩
              · exact hkne ((w.sec_lines n hn _ (headSec_mem w n hn) l h2).2.1 ▸ hsecl.symm)
              · rw [hsecl] at hscl
                rw [sc3] at hsck
                rw [hsck] at hscl; exact absurd hscl (by simp)
        · exact i3.out n hm k hk hsc (by rw [hfs3]; exact hin) l hl
      · have hnot' : k ∉ s3.failedSecs.getD m [] := by
          intro hin; apply hnot
          show k ∈ (s3.failedSecs.set n []).getD m []
          rw [getD_set_ne _ _ _ _ _ hmn]; exact hin
        exact i3.out m hm k hk hsc hnot' l hl
    · intro m hm hsc
      show headSec C m ∈ (s3.failedSecs.set n []).getD m []
      by_cases hmn : n = m
      · subst hmn
        exfalso
        have : gb s3.secConn (headSec C n) = true := by rw [sc3]; exact gb_set_self _ _ _ hk0lt
        rw [this] at hsc; exact absurd hsc (by simp)
      · rw [getD_set_ne _ _ _ _ _ hmn]; exact i3.head m hm hsc
    · intro m hm k hk
      change k ∈ (s3.failedSecs.set n []).getD m [] at hk
      by_cases hmn : n = m
      · subst hmn; rw [getD_set_self _ _ _ _ hlen] at hk; cases hk
      · rw [getD_set_ne _ _ _ _ _ hmn] at hk; exact i3.fs m hm k hk
  · exact (discAll w n hn _ s h (fun k hk => hk)).inv
  · exact h


/-! ### faults, repairs -/

theorem Inv.lessFailed {C : Cfg} {s s' : St} (h : Inv C s) (hc : s'.conn = s.conn)
    (hf : ∀ i, gb s'.failed i = true → gb s.failed i = true)
    (hb : s'.cbOpen = s.cbOpen) (hs : s'.secConn = s.secConn) (hfs : s'.failedSecs = s.failedSecs)
    (hk : s'.check.length = s.check.length) : Inv C s' := by
  refine ⟨⟨by rw [hc]; exact h.sz.conn, by rw [hs]; exact h.sz.secConn, by rw [hb]; exact h.sz.cbOpen, hk.trans h.sz.check,
    by rw [hfs]; exact h.sz.failedSecs⟩, ?_, ?_, ?_, ?_⟩
  · intro n hn hcb l hl hfl
    rw [hb] at hcb; rw [hc]
    exact h.safe n hn hcb l hl (hf l hfl)
  · intro n hn; unfold Out; rw [hs, hfs, hc]; exact h.out n hn
  · intro n hn; unfold Head; rw [hs, hfs]; exact h.head n hn
  · intro n hn; rw [hfs]; exact h.fs n hn

theorem lineNotFail_fields (C : Cfg) (s : St) (l : Nat) :
    (lineNotFail C s l).conn = s.conn ∧ (lineNotFail C s l).cbOpen = s.cbOpen ∧ (lineNotFail C s l).secConn = s.secConn ∧
    (lineNotFail C s l).failedSecs = s.failedSecs ∧ (lineNotFail C s l).check = s.check ∧ (lineNotFail C s l).rem = s.rem ∧
    (lineNotFail C s l).failed = s.failed.set l false := by
  unfold lineNotFail
  simp only
  split_ifs <;> exact ⟨rfl, rfl, rfl, rfl, rfl, rfl, rfl⟩

theorem Inv.lineUpdate {C : Cfg} {s : St} (h : Inv C s) (l : Nat) (dt : ℚ) : Inv C (lineUpdate C s l dt) := by
  unfold Relsad.Control.lineUpdate
  simp only []
  split_ifs with h1 h2
  · obtain ⟨c, b, sc, fs, ck, _, f⟩ := lineNotFail_fields C { s with rem := s.rem.set l (gr s.rem l - dt) } l
    refine h.lessFailed c ?_ b sc fs ?_
    · intro i hi
      change gb (lineNotFail C { s with rem := s.rem.set l (gr s.rem l - dt) } l).failed i = true at hi
      rw [f] at hi; exact (gb_set_true_imp _ _ _ hi).1
    · show ((lineNotFail C { s with rem := s.rem.set l (gr s.rem l - dt) } l).check.set _ true).length = s.check.length
      rw [List.length_set, ck]
  · exact h.congr rfl rfl rfl rfl rfl rfl
  · obtain ⟨c, b, sc, fs, ck, _, f⟩ := lineNotFail_fields C s l
    refine h.lessFailed c ?_ b sc fs (by rw [ck])
    intro i hi; rw [f] at hi; exact (gb_set_true_imp _ _ _ hi).1

theorem quiet_children_open (C : Cfg) (ms : List Nat) (s : St) :
    Quiet s (ms.foldl (fun s m => cbOpenOp C s (C.nets.getD m default).cb) s) :=
  quiet_foldl _ (fun s' _ => quiet_cbOpenOp C s' _) ms s

theorem Inv.lineFail {C : Cfg} {s : St} (w : WF C) (h : Inv C s) (l : Nat) (hl : l < C.lines.length) (rep : ℚ) :
    Inv C (lineFail C s l rep) := by
  unfold Relsad.Control.lineFail
  simp only
  set s1 : St := { s with failed := s.failed.set l true, netFailed := s.netFailed.set (C.lines.getD l default).net true, rem := s.rem.set l rep } with hs1
  have hfailed : ∀ i, gb s1.failed i = true → i = l ∨ gb s.failed i = true := by
    intro i hi
    change gb (s.failed.set l true) i = true at hi
    rw [gb_set] at hi
    by_cases hc : l = i ∧ l < s.failed.length
    · exact Or.inl hc.1.symm
    · rw [if_neg hc] at hi; exact Or.inr hi
  split_ifs with hconn
  · -- the line was in service: the breaker of its network (and of the attached microgrids) trips
    set n := (C.lines.getD l default).net with hn
    have hnlt : n < C.nets.length := w.line_net l hl
    have q1 : Quiet s1 (cbOpenOp C s1 (C.nets.getD n default).cb) := quiet_cbOpenOp C s1 _
    have q2 := quiet_children_open C (C.nets.getD n default).children (cbOpenOp C s1 (C.nets.getD n default).cb)
    have q := Quiet.trans q1 q2
    have hcblt : (C.nets.getD n default).cb < s1.cbOpen.length := by
      show (netOf C n).cb < s.cbOpen.length
      rw [h.sz.cbOpen]; exact w.cb_lt n hnlt
    have htrip : gb (List.foldl (fun s m => cbOpenOp C s (C.nets.getD m default).cb) (cbOpenOp C s1 (C.nets.getD n default).cb)
        (C.nets.getD n default).children).cbOpen (netOf C n).cb = true :=
      q2.opens.cbOpen _ (cbOpenOp_sets C s1 _ hcblt)
    refine ⟨q.len.sz ⟨h.sz.conn, h.sz.secConn, h.sz.cbOpen, h.sz.check, h.sz.failedSecs⟩, ?_, ?_, ?_, ?_⟩
    · intro m hm hcb i hi hf
      by_cases hmn : m = n
      · subst hmn; rw [htrip] at hcb; exact absurd hcb (by simp)
      · have hcb0 : gb s.cbOpen (netOf C m).cb = false := by
          cases hx : gb s.cbOpen (netOf C m).cb
          · rfl
          · have : gb s1.cbOpen (netOf C m).cb = true := hx
            rw [q.opens.cbOpen _ this] at hcb; exact absurd hcb (by simp)
        rw [q.failed] at hf
        rcases hfailed i hf with h1 | h1
        · exfalso; apply hmn
          have := (w.net_lines m hm i hi).2
          rw [h1] at this; exact this.symm
        · have := h.safe m hm hcb0 i hi h1
          cases hc : gb (List.foldl (fun s m => cbOpenOp C s (C.nets.getD m default).cb) (cbOpenOp C s1 (C.nets.getD n default).cb)
              (C.nets.getD n default).children).conn i
          · rfl
          · have h2 : gb s1.conn i = true := q.opens.conn i hc
            change gb s.conn i = true at h2
            rw [this] at h2; exact absurd h2 (by simp)
    · intro m hm k hk hsc hnot i hi
      rw [q.secConn] at hsc; rw [q.failedSecs] at hnot
      have := h.out m hm k hk hsc hnot i hi
      cases hc : gb (List.foldl (fun s m => cbOpenOp C s (C.nets.getD m default).cb) (cbOpenOp C s1 (C.nets.getD n default).cb)
          (C.nets.getD n default).children).conn i
      · rfl
      · have h2 : gb s1.conn i = true := q.opens.conn i hc
        change gb s.conn i = true at h2
        rw [this] at h2; exact absurd h2 (by simp)
    · intro m hm hsc
      rw [q.secConn] at hsc; rw [q.failedSecs]; exact h.head m hm hsc
    · intro m hm k hk; rw [q.failedSecs] at hk; exact h.fs m hm k hk
  · -- the line was already out of service: a hidden fault, nothing is energised
    have hconn' : gb s.conn l = false := by
      cases hx : gb s.conn l
      · rfl
      · exact absurd hx hconn
    refine ⟨⟨h.sz.conn, h.sz.secConn, h.sz.cbOpen, h.sz.check, h.sz.failedSecs⟩, ?_, h.out, h.head, h.fs⟩
    intro m hm hcb i hi hf
    rcases hfailed i hf with h1 | h1
    · rw [h1]; exact hconn'
    · exact h.safe m hm hcb i hi h1


/-! ### control loops, one increment, reachable states -/

theorem pTimerFold_fields (C : Cfg) (t : ℚ) (ms : List Nat) (s : St) :
    let r := ms.foldl (fun (s : St) m => if gb s.cbOpen (C.nets.getD m default).cb then { s with pTimer := s.pTimer.set m t } else s) s
    r.conn = s.conn ∧ r.failed = s.failed ∧ r.cbOpen = s.cbOpen ∧ r.secConn = s.secConn ∧ r.failedSecs = s.failedSecs ∧ r.check = s.check := by
  induction ms generalizing s with
  | nil => exact ⟨rfl, rfl, rfl, rfl, rfl, rfl⟩
  | cons a as ih =>
    simp only [List.foldl_cons]
    split_ifs
    · exact ih _
    · exact ih _

theorem AllClear.congr {C : Cfg} {s s' : St} {n : Nat} (h : AllClear C s n) (hs : s'.secConn = s.secConn) (hf : s'.failed = s.failed) :
    AllClear C s' n := by
  intro k hk hsc l hl; rw [hs] at hsc; rw [hf]; exact h k hk hsc l hl

/-- the part shared by both controllers: raise the check flag when the breaker is open and the timer has run out,
run the line check if the flag is up (followed by any bookkeeping `g` that leaves the switching state alone),
then the breaker check -/
theorem Inv.loopCore {C : Cfg} (w : WF C) (n : Nat) (hn : n < C.nets.length) (s1 : St) (h1 : Inv C s1) (g : St → St)
    (hg : ∀ a, (g a).conn = a.conn ∧ (g a).failed = a.failed ∧ (g a).cbOpen = a.cbOpen ∧ (g a).secConn = a.secConn ∧
      (g a).failedSecs = a.failedSecs ∧ (g a).check.length = a.check.length) :
    Inv C (checkBreakerManually C
      (if gb (if gb s1.cbOpen (C.nets.getD n default).cb && decide (gr s1.timer n ≤ 0) then { s1 with check := s1.check.set n true } else s1).check n
       then g (checkLinesManually C (if gb s1.cbOpen (C.nets.getD n default).cb && decide (gr s1.timer n ≤ 0) then { s1 with check := s1.check.set n true } else s1) n)
       else (if gb s1.cbOpen (C.nets.getD n default).cb && decide (gr s1.timer n ≤ 0) then { s1 with check := s1.check.set n true } else s1)) n) := by
  set s2 : St := (if gb s1.cbOpen (C.nets.getD n default).cb && decide (gr s1.timer n ≤ 0) then { s1 with check := s1.check.set n true } else s1) with hs2
  have h2 : Inv C s2 := by
    rw [hs2]; split_ifs
    · exact h1.congr rfl rfl rfl rfl rfl (by simp)
    · exact h1
  have hcb2 : s2.cbOpen = s1.cbOpen := by rw [hs2]; split_ifs <;> rfl
  have ht2 : s2.timer = s1.timer := by rw [hs2]; split_ifs <;> rfl
  by_cases hck : gb s2.check n = true
  · rw [if_pos hck]
    obtain ⟨i3, a3, _, _⟩ := h2.checkLines w n hn
    obtain ⟨g1, g2, g3, g4, g5, g6⟩ := hg (checkLinesManually C s2 n)
    exact (i3.congr g1 g2 g3 g4 g5 g6).checkBreaker w n hn (fun _ _ => a3.congr g4 g2)
  · rw [if_neg hck]
    refine h2.checkBreaker w n hn ?_
    intro hopen htimer
    exfalso; apply hck
    have hcond : (gb s1.cbOpen (C.nets.getD n default).cb && decide (gr s1.timer n ≤ 0)) = true := by
      rw [hcb2] at hopen; rw [ht2] at htimer
      simp only [Bool.and_eq_true, decide_eq_true_eq]
      exact ⟨hopen, htimer⟩
    rw [hs2, if_pos hcond]
    show gb (s1.check.set n true) n = true
    exact gb_set_self _ _ _ (by rw [h1.sz.check]; exact hn)

theorem Inv.distLoop {C : Cfg} {s : St} (w : WF C) (h : Inv C s) (n : Nat) (hn : n < C.nets.length) (dt : ℚ) :
    Inv C (distLoop C s n dt) := by
  unfold Relsad.Control.distLoop
  simp only []
  have h1 : Inv C { s with timer := s.timer.set n (tick (gr s.timer n) dt) } := h.congr rfl rfl rfl rfl rfl rfl
  set s1 : St := { s with timer := s.timer.set n (tick (gr s.timer n) dt) } with hs1
  have := Inv.loopCore w n hn s1 h1
    (fun a => let b := (C.nets.getD n default).children.foldl (fun (s : St) m =>
        if gb s.cbOpen (C.nets.getD m default).cb then { s with pTimer := s.pTimer.set m (gr s.timer n) } else s) a
      { b with check := b.check.set n false })
    (by
      intro a
      simp only []
      -- the time handed to the children is read from the state inside the fold; only `pTimer` is written
      have key : ∀ (ms : List Nat) (x : St),
          let r := ms.foldl (fun (s : St) m => if gb s.cbOpen (C.nets.getD m default).cb then { s with pTimer := s.pTimer.set m (gr s.timer n) } else s) x
          r.conn = x.conn ∧ r.failed = x.failed ∧ r.cbOpen = x.cbOpen ∧ r.secConn = x.secConn ∧ r.failedSecs = x.failedSecs ∧ r.check = x.check := by
        intro ms
        induction ms with
        | nil => intro x; exact ⟨rfl, rfl, rfl, rfl, rfl, rfl⟩
        | cons m ms ih =>
          intro x
          simp only [List.foldl_cons]
          split_ifs
          · exact ih _
          · exact ih _
      obtain ⟨k1, k2, k3, k4, k5, k6⟩ := key (C.nets.getD n default).children a
      refine ⟨k1, k2, k3, k4, k5, ?_⟩
      show (List.set _ n false).length = a.check.length
      rw [List.length_set, k6])
  exact this

theorem Inv.mgLoop {C : Cfg} {s : St} (w : WF C) (h : Inv C s) (n : Nat) (hn : n < C.nets.length) (dt : ℚ) :
    Inv C (mgLoop C s n dt) := by
  unfold Relsad.Control.mgLoop
  simp only []
  set s1 : St := { s with timer := s.timer.set n (if gr s.pTimer n > tick (gr s.timer n) dt then gr s.pTimer n else tick (gr s.timer n) dt),
                          pTimer := s.pTimer.set n (tick (gr s.pTimer n) dt) } with hs1
  have h1 : Inv C s1 := h.congr rfl rfl rfl rfl rfl rfl
  have := Inv.loopCore w n hn s1 h1 (fun a => { a with check := a.check.set n false })
    (by intro a; exact ⟨rfl, rfl, rfl, rfl, rfl, by simp⟩)
  exact this

theorem inv_foldl {C : Cfg} {α : Type} (f : St → α → St) (l : List α) (P : α → Prop) (hP : ∀ a ∈ l, P a)
    (hf : ∀ s a, P a → Inv C s → Inv C (f s a)) (s : St) (h : Inv C s) : Inv C (l.foldl f s) := by
  induction l generalizing s with
  | nil => exact h
  | cons a as ih =>
    simp only [List.foldl_cons]
    exact ih (fun x hx => hP x (List.mem_cons_of_mem _ hx)) _ (hf s a (hP a List.mem_cons_self) h)

theorem Inv.step {C : Cfg} {s : St} (w : WF C) (h : Inv C s) (dt : ℚ) : Inv C (step C s dt) := by
  unfold Relsad.Control.step
  simp only []
  refine inv_foldl _ _ (fun n => n < C.nets.length) ?_ (fun s' n hn h' => h'.mgLoop w n hn dt) _ ?_
  · intro n hn; exact List.mem_range.mp (List.mem_filter.mp hn).1
  refine inv_foldl _ _ (fun n => n < C.nets.length) ?_ (fun s' n hn h' => h'.distLoop w n hn dt) _ ?_
  · intro n hn; exact List.mem_range.mp (List.mem_filter.mp hn).1
  exact inv_foldl _ _ (fun _ => True) (fun _ _ => trivial) (fun s' l _ h' => h'.lineUpdate l dt) _ h

theorem gb_map_true {α : Type} (xs : List α) (i : Nat) (hi : i < xs.length) : gb (xs.map (fun _ => true)) i = true := by
  unfold gb
  simp [List.getD_eq_getElem?_getD, hi]

theorem Inv.init {C : Cfg} (w : WF C) : Inv C (St.init C) := by
  refine ⟨⟨by simp [St.init], by simp [St.init], by simp [St.init], by simp [St.init], by simp [St.init]⟩, ?_, ?_, ?_, ?_⟩
  · intro n _ _ l _ hf
    have : gb (St.init C).failed l = false := gb_map_const _ _
    rw [this] at hf; exact absurd hf (by simp)
  · intro n hn k hk hsc
    have : gb (St.init C).secConn k = true := gb_map_true _ _ (w.sec_lt n hn k hk)
    rw [this] at hsc; exact absurd hsc (by simp)
  · intro n hn hsc
    have : gb (St.init C).secConn (headSec C n) = true := gb_map_true _ _ (w.sec_lt n hn _ (headSec_mem w n hn))
    rw [this] at hsc; exact absurd hsc (by simp)
  · intro n hn k hk
    have : (St.init C).failedSecs.getD n [] = [] := by
      simp [St.init, List.getD_eq_getElem?_getD, hn]
    rw [this] at hk; cases hk


/-! ### ICT-based control: the same argument (the invariant does not read timers or repair times) -/

/-- flagging step of `check_sensors` -/
def flagStepA (C : Cfg) (n : Nat) (cm : Comm) (s : St) (k : Nat) : St :=
  let sc := C.secs.getD k default
  if anyFailed s sc.lines then
    let t := (if needSens C cm k then C.T else 0) + disconnectTime C cm k
    let s' := { s with secConn := s.secConn.set k false,
                       failedSecs := s.failedSecs.set n (addUnique (s.failedSecs.getD n []) k),
                       timer := s.timer.set n (gr s.timer n + t) }
    sc.lines.foldl (fun s l => { s with rem := s.rem.set l (gr s.rem l + disconnectTime C cm k) }) s'
  else s

theorem checkSensors_eq (C : Cfg) (s : St) (n : Nat) (cm : Comm) :
    checkSensors C s n cm =
      ((netOf C n).secs.filter (fun k => !gb s.secConn k)).foldl (recoStep C n)
        (((netOf C n).secs.filter (fun k => gb s.secConn k)).foldl (flagStepA C n cm) s) := rfl

theorem flagStepA_spec {C : Cfg} (w : WF C) (n : Nat) (hn : n < C.nets.length) (cm : Comm) (s : St) (h : Inv C s) (k : Nat)
    (hk : k ∈ (netOf C n).secs) :
    Inv C (flagStepA C n cm s k) ∧ (flagStepA C n cm s k).failed = s.failed ∧ (flagStepA C n cm s k).conn = s.conn ∧
    (flagStepA C n cm s k).cbOpen = s.cbOpen ∧
    (flagStepA C n cm s k).secConn = (if anyFailed s (secOf C k).lines then s.secConn.set k false else s.secConn) := by
  unfold flagStepA
  simp only
  by_cases hf : anyFailed s (C.secs.getD k default).lines = true
  · have hf' : anyFailed s (secOf C k).lines = true := hf
    rw [if_pos hf, if_pos hf']
    have hflen : n < s.failedSecs.length := by rw [h.sz.failedSecs]; exact hn
    have h1 : Inv C { s with failedSecs := s.failedSecs.set n (addUnique (s.failedSecs.getD n []) k) } := h.addFailed n k hn hk
    have hin : k ∈ ({ s with failedSecs := s.failedSecs.set n (addUnique (s.failedSecs.getD n []) k) } : St).failedSecs.getD n [] := by
      show k ∈ (s.failedSecs.set n _).getD n []
      rw [getD_set_self _ _ _ _ hflen]
      unfold addUnique; split_ifs with hc
      · simpa using hc
      · simp
    have h2 := Inv.flag w h1 n k hn hk hin
    have rf := remFold_fields (disconnectTime C cm k) (C.secs.getD k default).lines
      { s with secConn := s.secConn.set k false, failedSecs := s.failedSecs.set n (addUnique (s.failedSecs.getD n []) k),
               timer := s.timer.set n (gr s.timer n + ((if needSens C cm k then C.T else 0) + disconnectTime C cm k)) }
    simp only at rf
    obtain ⟨r1, r2, r3, r4, r5, r6⟩ := rf
    refine ⟨?_, r2, r1, r3, r4⟩
    exact h2.congr r1 r2 r3 r4 r5 (by rw [r6])
  · have hf' : ¬ anyFailed s (secOf C k).lines = true := hf
    rw [if_neg hf, if_neg hf']
    exact ⟨h, rfl, rfl, rfl, rfl⟩

/-- the flagging fold, for any step function with the flagging specification -/
theorem flagAllG {C : Cfg} (w : WF C) (n : Nat) (hn : n < C.nets.length) (f : St → Nat → St)
    (hspec : ∀ (s : St) (k : Nat), Inv C s → k ∈ (netOf C n).secs →
      Inv C (f s k) ∧ (f s k).failed = s.failed ∧ (f s k).conn = s.conn ∧ (f s k).cbOpen = s.cbOpen ∧
      (f s k).secConn = (if anyFailed s (secOf C k).lines then s.secConn.set k false else s.secConn))
    (ks : List Nat) (s : St) (h : Inv C s) (hks : ∀ k ∈ ks, k ∈ (netOf C n).secs) : FlagAll C ks s (ks.foldl f s) := by
  induction ks generalizing s with
  | nil => exact ⟨h, rfl, rfl, rfl, fun _ hj => hj, fun k hk => by cases hk⟩
  | cons a as ih =>
    simp only [List.foldl_cons]
    have ha := hks a List.mem_cons_self
    obtain ⟨i1, f1, c1, b1, sc1⟩ := hspec s a h ha
    have r := ih (f s a) i1 (fun k hk => hks k (List.mem_cons_of_mem _ hk))
    have mono1 : ∀ j, gb (f s a).secConn j = true → gb s.secConn j = true := by
      intro j hj; rw [sc1] at hj
      split_ifs at hj
      · exact (gb_set_true_imp _ _ _ hj).1
      · exact hj
    have nf_eq : ∀ k, NoFailedIn C (f s a) k ↔ NoFailedIn C s k := by
      intro k; unfold NoFailedIn; rw [f1]
    refine ⟨r.inv, r.failed.trans f1, r.conn.trans c1, r.cbOpen.trans b1, fun j hj => mono1 j (r.secMono j hj), ?_⟩
    intro k hk hsc
    rcases List.mem_cons.mp hk with rfl | hk'
    · have h1 := r.secMono k hsc
      rw [sc1] at h1
      by_cases hf : anyFailed s (secOf C k).lines = true
      · rw [if_pos hf] at h1
        have hklt : k < s.secConn.length := by rw [h.sz.secConn]; exact w.sec_lt n hn k ha
        rw [gb_set_self _ _ _ hklt] at h1; exact absurd h1 (by simp)
      · exact (anyFailed_false_iff C s k).mp (by simpa using hf)
    · exact (nf_eq k).mp (r.clear k hk' hsc)

/-- **the sensor check** keeps the invariant and leaves every in-service section of the network free of failed lines,
whatever the controller can reach -/
theorem Inv.checkSens {C : Cfg} {s : St} (w : WF C) (h : Inv C s) (n : Nat) (hn : n < C.nets.length) (cm : Comm) :
    Inv C (checkSensors C s n cm) ∧ AllClear C (checkSensors C s n cm) n := by
  rw [checkSensors_eq]
  have fa := flagAllG w n hn (flagStepA C n cm) (fun s' k hs' hk => flagStepA_spec w n hn cm s' hs' k hk)
    ((netOf C n).secs.filter (fun k => gb s.secConn k)) s h (fun k hk => (List.mem_filter.mp hk).1)
  have hA : AllClear C (((netOf C n).secs.filter (fun k => gb s.secConn k)).foldl (flagStepA C n cm) s) n := by
    intro k hk hsc l hl
    rw [fa.failed]
    have hs := fa.secMono k hsc
    exact fa.clear k (List.mem_filter.mpr ⟨hk, hs⟩) hsc l hl
  obtain ⟨i2, a2, _, _⟩ := recoAll w n hn ((netOf C n).secs.filter (fun k => !gb s.secConn k)) _ fa.inv hA
    (fun k hk => (List.mem_filter.mp hk).1)
  exact ⟨i2, a2⟩

/-- the shared tail of every control loop, for any line / sensor check with the right specification -/
theorem Inv.loopCoreG {C : Cfg} (w : WF C) (n : Nat) (hn : n < C.nets.length) (s1 : St) (h1 : Inv C s1) (chk : St → St)
    (hchk : ∀ s2, Inv C s2 → Inv C (chk s2) ∧ AllClear C (chk s2) n) (g : St → St)
    (hg : ∀ a, (g a).conn = a.conn ∧ (g a).failed = a.failed ∧ (g a).cbOpen = a.cbOpen ∧ (g a).secConn = a.secConn ∧
      (g a).failedSecs = a.failedSecs ∧ (g a).check.length = a.check.length) :
    Inv C (checkBreakerManually C
      (if gb (if gb s1.cbOpen (C.nets.getD n default).cb && decide (gr s1.timer n ≤ 0) then { s1 with check := s1.check.set n true } else s1).check n
       then g (chk (if gb s1.cbOpen (C.nets.getD n default).cb && decide (gr s1.timer n ≤ 0) then { s1 with check := s1.check.set n true } else s1))
       else (if gb s1.cbOpen (C.nets.getD n default).cb && decide (gr s1.timer n ≤ 0) then { s1 with check := s1.check.set n true } else s1)) n) := by
  set s2 : St := (if gb s1.cbOpen (C.nets.getD n default).cb && decide (gr s1.timer n ≤ 0) then { s1 with check := s1.check.set n true } else s1) with hs2
  have h2 : Inv C s2 := by
    rw [hs2]; split_ifs
    · exact h1.congr rfl rfl rfl rfl rfl (by simp)
    · exact h1
  have hcb2 : s2.cbOpen = s1.cbOpen := by rw [hs2]; split_ifs <;> rfl
  have ht2 : s2.timer = s1.timer := by rw [hs2]; split_ifs <;> rfl
  by_cases hck : gb s2.check n = true
  · rw [if_pos hck]
    obtain ⟨i3, a3⟩ := hchk s2 h2
    obtain ⟨g1, g2, g3, g4, g5, g6⟩ := hg (chk s2)
    exact (i3.congr g1 g2 g3 g4 g5 g6).checkBreaker w n hn (fun _ _ => a3.congr g4 g2)
  · rw [if_neg hck]
    refine h2.checkBreaker w n hn ?_
    intro hopen htimer
    exfalso; apply hck
    have hcond : (gb s1.cbOpen (C.nets.getD n default).cb && decide (gr s1.timer n ≤ 0)) = true := by
      rw [hcb2] at hopen; rw [ht2] at htimer
      simp only [Bool.and_eq_true, decide_eq_true_eq]
      exact ⟨hopen, htimer⟩
    rw [hs2, if_pos hcond]
    show gb (s1.check.set n true) n = true
    exact gb_set_self _ _ _ (by rw [h1.sz.check]; exact hn)

theorem Inv.distLoopA {C : Cfg} {s : St} (w : WF C) (h : Inv C s) (n : Nat) (hn : n < C.nets.length) (dt : ℚ) (cm : Comm) :
    Inv C (distLoopA C s n dt cm) := by
  unfold Relsad.Control.distLoopA
  simp only []
  have h1 : Inv C { s with timer := s.timer.set n (tick (gr s.timer n) dt) } := h.congr rfl rfl rfl rfl rfl rfl
  set s1 : St := { s with timer := s.timer.set n (tick (gr s.timer n) dt) } with hs1
  have := Inv.loopCoreG w n hn s1 h1 (fun x => checkSensors C x n cm) (fun s2 h2 => h2.checkSens w n hn cm)
    (fun a => let b := (C.nets.getD n default).children.foldl (fun (s : St) m =>
        if gb s.cbOpen (C.nets.getD m default).cb then { s with pTimer := s.pTimer.set m (gr s.timer n) } else s) a
      { b with check := b.check.set n false })
    (by
      intro a
      simp only []
      have key : ∀ (ms : List Nat) (x : St),
          let r := ms.foldl (fun (s : St) m => if gb s.cbOpen (C.nets.getD m default).cb then { s with pTimer := s.pTimer.set m (gr s.timer n) } else s) x
          r.conn = x.conn ∧ r.failed = x.failed ∧ r.cbOpen = x.cbOpen ∧ r.secConn = x.secConn ∧ r.failedSecs = x.failedSecs ∧ r.check = x.check := by
        intro ms
        induction ms with
        | nil => intro x; exact ⟨rfl, rfl, rfl, rfl, rfl, rfl⟩
        | cons m ms ih =>
          intro x
          simp only [List.foldl_cons]
          split_ifs
          · exact ih _
          · exact ih _
      obtain ⟨k1, k2, k3, k4, k5, k6⟩ := key (C.nets.getD n default).children a
      refine ⟨k1, k2, k3, k4, k5, ?_⟩
      show (List.set _ n false).length = a.check.length
      rw [List.length_set, k6])
  exact this

theorem Inv.mgLoopA {C : Cfg} {s : St} (w : WF C) (h : Inv C s) (n : Nat) (hn : n < C.nets.length) (dt : ℚ) (cm : Comm) :
    Inv C (mgLoopA C s n dt cm) := by
  unfold Relsad.Control.mgLoopA
  simp only []
  set s1 : St := { s with timer := s.timer.set n (if gr s.pTimer n > tick (gr s.timer n) dt then gr s.pTimer n else tick (gr s.timer n) dt),
                          pTimer := s.pTimer.set n (tick (gr s.pTimer n) dt) } with hs1
  have h1 : Inv C s1 := h.congr rfl rfl rfl rfl rfl rfl
  have := Inv.loopCoreG w n hn s1 h1 (fun x => checkSensors C x n cm) (fun s2 h2 => h2.checkSens w n hn cm)
    (fun a => { a with check := a.check.set n false })
    (by intro a; exact ⟨rfl, rfl, rfl, rfl, rfl, by simp⟩)
  exact this

theorem Inv.stepA {C : Cfg} {s : St} (w : WF C) (h : Inv C s) (dt : ℚ) (cm : Comm) : Inv C (stepA C s dt cm) := by
  unfold Relsad.Control.stepA
  simp only []
  refine inv_foldl _ _ (fun n => n < C.nets.length) ?_ (fun s' n hn h' => h'.mgLoopA w n hn dt cm) _ ?_
  · intro n hn; exact List.mem_range.mp (List.mem_filter.mp hn).1
  refine inv_foldl _ _ (fun n => n < C.nets.length) ?_ (fun s' n hn h' => h'.distLoopA w n hn dt cm) _ ?_
  · intro n hn; exact List.mem_range.mp (List.mem_filter.mp hn).1
  exact inv_foldl _ _ (fun _ => True) (fun _ _ => trivial) (fun s' l _ h' => h'.lineUpdate l dt) _ h

end Relsad.Control
