/- Weak duality for box LPs with equality rows (list-encoded), and soundness of the executable checkers. -/
import Mathlib.Tactic.Linarith
import Mathlib.Tactic.Ring
import Mathlib.Algebra.Order.Field.Rat
import Relsad.Model.LP

namespace Relsad.LP

/-- well-shaped: every row, c, lo, hi, x have length n; A and b, y same length -/
structure Shaped (p : LP) (x y : List Rat) : Prop where
  rows : ∀ r ∈ p.A, r.length = p.n
  hc : p.c.length = p.n
  hlo : p.lo.length = p.n
  hhi : p.hi.length = p.n
  hx : x.length = p.n
  hb : p.b.length = p.A.length
  hy : y.length = p.A.length

def InBox : List Rat → List Rat → List Rat → Prop
  | x :: xs, l :: ls, u :: us => l ≤ x ∧ x ≤ u ∧ InBox xs ls us
  | [], [], [] => True
  | _, _, _ => False

def EqRows : List (List Rat) → List Rat → List Rat → Prop
  | r :: rs, b :: bs, x => dot r x = b ∧ EqRows rs bs x
  | [], [], _ => True
  | _, _, _ => False

theorem dot_vadd (a b x : List Rat) (h : a.length = b.length) (hx : a.length = x.length) :
    dot (vadd a b) x = dot a x + dot b x := by
  induction a generalizing b x with
  | nil =>
    cases b with
    | nil => simp [vadd, dot]
    | cons _ _ => simp at h
  | cons a as ih =>
    cases b with
    | nil => simp at h
    | cons b bs =>
      cases x with
      | nil => simp at hx
      | cons x xs =>
        simp only [vadd, dot]
        rw [ih bs xs (by simpa using h) (by simpa using hx)]
        ring

theorem dot_smul (k : Rat) (a x : List Rat) : dot (smul k a) x = k * dot a x := by
  induction a generalizing x with
  | nil => simp [smul, dot]
  | cons a as ih =>
    cases x with
    | nil => simp [smul, dot]
    | cons x xs =>
      simp only [smul, List.map, dot] at *
      rw [ih xs]; ring

theorem dot_zeros (n : Nat) (x : List Rat) : dot (zeros n) x = 0 := by
  induction n generalizing x with
  | zero => simp [zeros, dot]
  | succ n ih =>
    cases x with
    | nil => simp [zeros, List.replicate, dot]
    | cons x xs => simp only [zeros, List.replicate, dot] at *; rw [ih xs]; ring

theorem vadd_length (a b : List Rat) (h : a.length = b.length) : (vadd a b).length = a.length := by
  induction a generalizing b with
  | nil => cases b <;> simp_all [vadd]
  | cons a as ih => cases b with
    | nil => simp at h
    | cons b bs => simp [vadd, ih bs (by simpa using h)]

theorem yTA_length (n : Nat) (y : List Rat) (A : List (List Rat)) (hr : ∀ r ∈ A, r.length = n) :
    (yTA n y A).length = n := by
  induction y generalizing A with
  | nil => simp [yTA, zeros]
  | cons y ys ih =>
    cases A with
    | nil => simp [yTA, zeros]
    | cons r rs =>
      have hr1 : r.length = n := hr r (by simp)
      have ih' := ih rs (fun r' h' => hr r' (by simp [h']))
      simp only [yTA]
      rw [vadd_length _ _ (by simp [smul, hr1, ih'])]
      simp [smul, hr1]

/-- y·(A x) = (yᵀA)·x when rows are satisfied: Σ y_i b_i = (yᵀA)·x -/
theorem dot_yTA (n : Nat) (y b : List Rat) (A : List (List Rat)) (x : List Rat)
    (hr : ∀ r ∈ A, r.length = n) (hx : x.length = n) (hb : b.length = A.length)
    (hy : y.length = A.length) (heq : EqRows A b x) :
    dot (yTA n y A) x = dot y b := by
  induction A generalizing y b with
  | nil =>
    cases y with
    | nil => simp [yTA, dot, dot_zeros]
    | cons _ _ => simp at hy
  | cons r rs ih =>
    cases y with
    | nil => simp at hy
    | cons y ys =>
      cases b with
      | nil => simp at hb
      | cons b bs =>
        obtain ⟨h1, h2⟩ := heq
        have hr1 : r.length = n := hr r (by simp)
        have hrs : ∀ r' ∈ rs, r'.length = n := fun r' h' => hr r' (by simp [h'])
        simp only [yTA, dot]
        rw [dot_vadd _ _ _ (by simp [smul, hr1, yTA_length n ys rs hrs]) (by simp [smul, hr1, hx]),
            dot_smul, h1, ih ys bs hrs (by simpa using hb) (by simpa using hy) h2]

theorem dot_vsub (a b x : List Rat) (h : a.length = b.length) (hx : a.length = x.length) :
    dot (vsub a b) x = dot a x - dot b x := by
  induction a generalizing b x with
  | nil =>
    cases b with
    | nil => simp [vsub, dot]
    | cons _ _ => simp at h
  | cons a as ih =>
    cases b with
    | nil => simp at h
    | cons b bs =>
      cases x with
      | nil => simp at hx
      | cons x xs =>
        simp only [vsub, dot]
        rw [ih bs xs (by simpa using h) (by simpa using hx)]; ring

theorem boxMin_le (r x l u : List Rat) (hbox : InBox x l u) (hr : r.length = x.length) :
    boxMin r l u ≤ dot r x := by
  induction r generalizing x l u with
  | nil => cases x <;> cases l <;> cases u <;> simp_all [boxMin, dot, InBox]
  | cons r rs ih =>
    cases x with
    | nil => simp at hr
    | cons x xs =>
      cases l with
      | nil => cases u <;> simp [InBox] at hbox
      | cons l ls =>
        cases u with
        | nil => simp [InBox] at hbox
        | cons u us =>
          obtain ⟨h1, h2, h3⟩ := hbox
          have := ih xs ls us h3 (by simpa using hr)
          simp only [boxMin, dot]
          have hm : min (r * l) (r * u) ≤ r * x := by
            rcases le_total 0 r with hr0 | hr0
            · exact le_trans (min_le_left _ _) (mul_le_mul_of_nonneg_left h1 hr0)
            · exact le_trans (min_le_right _ _) (mul_le_mul_of_nonpos_left h2 hr0)
          linarith

theorem vsub_length (a b : List Rat) (h : a.length = b.length) : (vsub a b).length = a.length := by
  induction a generalizing b with
  | nil => cases b <;> simp_all [vsub]
  | cons a as ih => cases b with
    | nil => simp at h
    | cons b bs => simp [vsub, ih bs (by simpa using h)]

/-- Lagrangian (weak duality) bound for every box-constrained LP and every multiplier y. -/
theorem lagrangian_bound (p : LP) (x y : List Rat) (hs : Shaped p x y)
    (heq : EqRows p.A p.b x) (hbox : InBox x p.lo p.hi) :
    dualBound p y ≤ dot p.c x := by
  unfold dualBound
  have hlen := yTA_length p.n y p.A hs.rows
  have h1 := dot_yTA p.n y p.b p.A x hs.rows hs.hx hs.hb hs.hy heq
  have h2 := dot_vsub p.c (yTA p.n y p.A) x (by rw [hs.hc, hlen]) (by rw [hs.hc, hs.hx])
  have h3 := boxMin_le (vsub p.c (yTA p.n y p.A)) x p.lo p.hi hbox
    (by rw [vsub_length _ _ (by rw [hs.hc, hlen]), hs.hc, hs.hx])
  linarith

/-! ### Soundness of the executable checkers -/

theorem inBoxB_sound (x l u : List Rat) (h : inBoxB 0 x l u = true) : InBox x l u := by
  induction x generalizing l u with
  | nil => cases l <;> cases u <;> simp_all [inBoxB, InBox]
  | cons x xs ih =>
    cases l with
    | nil => simp [inBoxB] at h
    | cons l ls =>
      cases u with
      | nil => simp [inBoxB] at h
      | cons u us =>
        simp only [inBoxB, sub_zero, add_zero, Bool.and_eq_true, decide_eq_true_eq] at h
        exact ⟨h.1.1, h.1.2, ih ls us h.2⟩

theorem absR_le_zero {x : Rat} (h : absR x ≤ 0) : x = 0 := by
  unfold absR at h
  split_ifs at h with hx
  · linarith
  · linarith [not_lt.mp hx]

theorem eqRowsB_sound (A : List (List Rat)) (b x : List Rat) (h : eqRowsB 0 A b x = true) : EqRows A b x := by
  induction A generalizing b with
  | nil => cases b <;> simp_all [eqRowsB, EqRows]
  | cons r rs ih =>
    cases b with
    | nil => simp [eqRowsB] at h
    | cons b bs =>
      simp only [eqRowsB, Bool.and_eq_true, decide_eq_true_eq] at h
      exact ⟨by have := absR_le_zero h.1; linarith, ih bs h.2⟩

theorem shapedB_sound (p : LP) (x y : List Rat) (h : shapedB p x y = true) : Shaped p x y := by
  unfold shapedB at h
  simp only [Bool.and_eq_true, List.all_eq_true, beq_iff_eq] at h
  obtain ⟨⟨⟨⟨⟨⟨h1, h2⟩, h3⟩, h4⟩, h5⟩, h6⟩, h7⟩ := h
  exact ⟨h1, h2, h3, h4, h5, h6, h7⟩

/-- exact feasibility, as a proposition -/
def Feasible (p : LP) (z : List Rat) : Prop :=
  (∀ r ∈ p.A, r.length = p.n) ∧ p.c.length = p.n ∧ p.lo.length = p.n ∧ p.hi.length = p.n ∧ z.length = p.n ∧
  p.b.length = p.A.length ∧ EqRows p.A p.b z ∧ InBox z p.lo p.hi

theorem isFeasible_sound (p : LP) (z : List Rat) (h : isFeasible p z = true) : Feasible p z := by
  unfold isFeasible at h
  simp only [Bool.and_eq_true] at h
  have hs := shapedB_sound p z _ h.1.1
  exact ⟨hs.rows, hs.hc, hs.hlo, hs.hhi, hs.hx, hs.hb, eqRowsB_sound _ _ _ h.1.2, inBoxB_sound _ _ _ h.2⟩

end Relsad.LP
