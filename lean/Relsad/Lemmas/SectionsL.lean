/- Helper lemmas about `headOf` (fuel independence, one-step unfolding). -/
import Relsad.Model.Sections
import Mathlib.Tactic.Linarith

namespace Relsad.Sections

theorem lt_length_of_get {ls : List LineSpec} {i : Nat} {l : LineSpec} (h : ls[i]? = some l) : i < ls.length := by
  by_contra hh
  rw [List.getElem?_eq_none (by omega)] at h
  simp at h

theorem headOf_succ (ls : List LineSpec) (f i : Nat) :
    headOf ls (f + 1) i =
      match ls[i]? with
      | none => i
      | some l =>
        match l.parent with
        | none => i
        | some p => if l.nsw = 0 then headOf ls f p else i := rfl

/-- with enough fuel the answer does not depend on the fuel -/
theorem headOf_fuel (ls : List LineSpec) (hwf : WF ls) :
    ∀ f g j, j < f → j < g → j < ls.length → headOf ls f j = headOf ls g j := by
  intro f
  induction f with
  | zero => intro g j hj; omega
  | succ f ihf =>
    intro g j hjf hjg hjl
    cases g with
    | zero => omega
    | succ g =>
      rw [headOf_succ, headOf_succ]
      have hgj : ls[j]? = some ls[j] := List.getElem?_eq_getElem hjl
      rw [hgj]; simp only
      cases hjp : (ls[j]).parent with
      | none => rfl
      | some q =>
        simp only
        have hwq := hwf j ls[j] hgj
        rw [hjp] at hwq; simp only at hwq
        split_ifs
        · exact ihf g q (by omega) (by omega) (by omega)
        · rfl

/-- one-step unfolding at full fuel -/
theorem headOf_unfold (ls : List LineSpec) (hwf : WF ls) (i : Nat) (l : LineSpec) (hl : ls[i]? = some l) :
    headOf ls ls.length i =
      match l.parent with
      | none => i
      | some p => if l.nsw = 0 then headOf ls ls.length p else i := by
  have hi := lt_length_of_get hl
  have hlenpos : ls.length = (ls.length - 1) + 1 := by omega
  conv_lhs => rw [hlenpos, headOf_succ]
  rw [hl]; simp only
  cases hp : l.parent with
  | none => rfl
  | some p =>
    simp only
    have hw := hwf i l hl
    rw [hp] at hw; simp only at hw
    split_ifs
    · exact headOf_fuel ls hwf _ _ p (by omega) (by omega) (by omega)
    · rfl

end Relsad.Sections
