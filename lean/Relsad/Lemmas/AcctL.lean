/-
Helper lemmas: what single increments with / without supply do to the per-bus accounting model (used by C07).
-/
import Relsad.Props.C01
import Mathlib.Tactic.FieldSimp
import Mathlib.Tactic.Ring
import Mathlib.Tactic.Linarith
import Mathlib.Tactic.Positivity

namespace Relsad.Acct
open Relsad Relsad.BusAcc Relsad.C01

/-- an increment in which the load point (constant demand `P`, no storage, transformer in service) lies in an island
without a source: the shedding problem sheds its whole demand (`C02.sourceless_sheds_all`) -/
def deadInc (P H : ℚ) : Inc := { p0 := P, q0 := 0, trafoFailed := false, ep := 0, eq := 0, sp := P, sq := 0, h := H, logged := true }

/-- … and one in which it is fed and nothing is shed (`C02.fed_zero_shed`) -/
def liveInc (P H : ℚ) : Inc := { p0 := P, q0 := 0, trafoFailed := false, ep := 0, eq := 0, sp := 0, sq := 0, h := H, logged := true }

theorem step_dead (b : BusAcc) (P H : ℚ) (hP : eqZero P = false) (hP0 : 0 < P) (hH : 0 < H) (h0 : b.pStack = 0) :
    (step b (deadInc P H)).accOutage = b.accOutage + H ∧ (step b (deadInc P H)).accP = b.accP + P * H ∧
    (step b (deadInc P H)).accInt = b.accInt ∧ (step b (deadInc P H)).pStack = 0 ∧
    (step b (deadInc P H)).nConsec = b.nConsec + 1 ∧ (step b (deadInc P H)).curr = b.curr + 1 ∧
    (step b (deadInc P H)).nCust = b.nCust := by
  have hPH : 0 < P * H := by positivity
  have hfrac : P * H / (P * H) = 1 := div_self (ne_of_gt hPH)
  unfold step beforeLog deadInc
  simp only [Bool.false_eq_true, if_false, if_true, setLoad, addLoad, addToStack, add_zero, BusAcc.log, h0, hP,
    Bool.not_false, true_and, gt_iff_lt, hH, hfrac, zero_lt_one, zero_add, hPH]

theorem step_live (b : BusAcc) (P H : ℚ) (h0 : b.pStack = 0) :
    (step b (liveInc P H)).accOutage = b.accOutage ∧ (step b (liveInc P H)).accP = b.accP ∧
    (step b (liveInc P H)).accInt = (if b.nConsec ≥ 1 then b.accInt + b.curr / (b.nConsec : ℚ) else b.accInt) ∧
    (step b (liveInc P H)).pStack = 0 ∧ (step b (liveInc P H)).nConsec = 0 ∧ (step b (liveInc P H)).curr = 0 ∧
    (step b (liveInc P H)).nCust = b.nCust := by
  unfold step beforeLog liveInc
  simp only [Bool.false_eq_true, if_false, if_true, setLoad, addLoad, addToStack, add_zero, BusAcc.log, h0,
    zero_mul, gt_iff_lt, lt_self_iff_false, zero_div, ite_self]
  exact ⟨trivial, trivial, trivial, trivial, trivial, trivial, trivial⟩

/-- a run of `k` increments without supply -/
theorem dead_run (P H : ℚ) (hP : eqZero P = false) (hP0 : 0 < P) (hH : 0 < H) (k : ℕ) (b : BusAcc) (h0 : b.pStack = 0) :
    let b' := (List.replicate k (deadInc P H)).foldl step b
    b'.accOutage = b.accOutage + k * H ∧ b'.accP = b.accP + k * (P * H) ∧ b'.accInt = b.accInt ∧ b'.pStack = 0 ∧
    b'.nConsec = b.nConsec + k ∧ b'.curr = b.curr + k ∧ b'.nCust = b.nCust := by
  induction k generalizing b with
  | zero => simp [h0]
  | succ k ih =>
    obtain ⟨a1, a2, a3, a4, a5, a6, a7⟩ := step_dead b P H hP hP0 hH h0
    obtain ⟨r1, r2, r3, r4, r5, r6, r7⟩ := ih (step b (deadInc P H)) a4
    simp only [List.replicate_succ, List.foldl_cons]
    refine ⟨?_, ?_, r3.trans a3, r4, ?_, ?_, r7.trans a7⟩
    · rw [r1, a1]; push_cast; ring
    · rw [r2, a2]; push_cast; ring
    · rw [r5, a5]; omega
    · rw [r6, a6]; push_cast; ring

end Relsad.Acct
