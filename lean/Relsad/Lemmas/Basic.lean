/-
Helper lemmas shared by property files: the bridge from core `Rat.floor` (what the
executable models use) to Mathlib's `⌊·⌋`, and Python's `int()`.
-/
import Relsad.Model.TimeM
import Mathlib.Data.Rat.Floor
import Mathlib.Algebra.Order.Floor.Ring

namespace Relsad

theorem ratFloor_eq (x : ℚ) : x.floor = ⌊x⌋ := by
  rw [Rat.floor_def', Rat.floor_def]

theorem pyInt_of_nonneg {x : ℚ} (h : 0 ≤ x) : pyInt x = ⌊x⌋ := by
  simp [pyInt, h, ratFloor_eq]

theorem pyInt_of_neg {x : ℚ} (h : x < 0) : pyInt x = -⌊-x⌋ := by
  simp [pyInt, not_le.mpr h, ratFloor_eq]

end Relsad

namespace Relsad

/-! ### Python `round` (half to even) -/

theorem pyRound_ge_floor (x : ℚ) : ⌊x⌋ ≤ pyRound x := by
  unfold pyRound
  simp only [ratFloor_eq]
  split_ifs <;> omega

theorem pyRound_le_floor_succ (x : ℚ) : pyRound x ≤ ⌊x⌋ + 1 := by
  unfold pyRound
  simp only [ratFloor_eq]
  split_ifs <;> omega

theorem pyRound_intCast (n : ℤ) : pyRound (n : ℚ) = n := by
  unfold pyRound
  simp [ratFloor_eq]

theorem le_pyRound {n : ℤ} {x : ℚ} (h : (n : ℚ) ≤ x) : n ≤ pyRound x :=
  le_trans (Int.le_floor.mpr h) (pyRound_ge_floor x)

theorem pyRound_le {n : ℤ} {x : ℚ} (h : x ≤ (n : ℚ)) : pyRound x ≤ n := by
  rcases lt_or_eq_of_le h with h' | h'
  · have : ⌊x⌋ < n := Int.floor_lt.mpr h'
    have := pyRound_le_floor_succ x
    omega
  · rw [h', pyRound_intCast]

theorem pyRound_mono {x y : ℚ} (h : x ≤ y) : pyRound x ≤ pyRound y := by
  have hf : ⌊x⌋ ≤ ⌊y⌋ := Int.floor_le_floor h
  rcases lt_or_eq_of_le hf with hlt | heq
  · have := pyRound_le_floor_succ x
    have := pyRound_ge_floor y
    omega
  · unfold pyRound
    simp only [ratFloor_eq, heq]
    have hr : x - (⌊y⌋ : ℚ) ≤ y - (⌊y⌋ : ℚ) := by linarith
    split_ifs <;> first | omega | (exfalso; linarith)

theorem pyRoundN_intCast (n : ℤ) (d : ℕ) : pyRoundN (n : ℚ) d = n := by
  unfold pyRoundN
  have : (n : ℚ) * (10 : ℚ) ^ d = ((n * 10 ^ d : ℤ) : ℚ) := by push_cast; ring
  rw [this, pyRound_intCast]
  push_cast
  field_simp

theorem pyRoundN_mono {x y : ℚ} (d : ℕ) (h : x ≤ y) : pyRoundN x d ≤ pyRoundN y d := by
  unfold pyRoundN
  have hp : (0 : ℚ) < (10 : ℚ) ^ d := by positivity
  have : pyRound (x * (10 : ℚ) ^ d) ≤ pyRound (y * (10 : ℚ) ^ d) :=
    pyRound_mono (mul_le_mul_of_nonneg_right h (le_of_lt hp))
  have : ((pyRound (x * (10 : ℚ) ^ d) : ℤ) : ℚ) ≤ ((pyRound (y * (10 : ℚ) ^ d) : ℤ) : ℚ) := by exact_mod_cast this
  exact div_le_div_of_nonneg_right this (le_of_lt hp)

theorem pyRoundN_nonneg {x : ℚ} (d : ℕ) (h : 0 ≤ x) : 0 ≤ pyRoundN x d := by
  have := pyRoundN_mono d h
  rwa [show ((0 : ℚ)) = ((0 : ℤ) : ℚ) by simp, pyRoundN_intCast] at this

/-- Rounding to 6 decimals does not change the integer part of a number whose fractional part
is at most `1 - 10⁻⁶` (e.g. any whole number of seconds expressed in hours). -/
theorem floor_pyRoundN6 {x : ℚ} {N : ℤ} (h1 : (N : ℚ) ≤ x) (h2 : x ≤ (N : ℚ) + 1 - 1 / 10 ^ 6) :
    ⌊pyRoundN x 6⌋ = N := by
  have lo : (N : ℚ) ≤ pyRoundN x 6 := by
    have := pyRoundN_mono 6 h1
    rwa [pyRoundN_intCast] at this
  have hi : pyRoundN x 6 ≤ (N : ℚ) + 1 - 1 / 10 ^ 6 := by
    unfold pyRoundN
    have hb : x * (10 : ℚ) ^ 6 ≤ (((N + 1) * 10 ^ 6 - 1 : ℤ) : ℚ) := by
      push_cast
      have : x * (10 : ℚ) ^ 6 ≤ ((N : ℚ) + 1 - 1 / 10 ^ 6) * 10 ^ 6 :=
        mul_le_mul_of_nonneg_right h2 (by positivity)
      linarith [this]
    have := pyRound_le hb
    have : ((pyRound (x * (10 : ℚ) ^ 6) : ℤ) : ℚ) ≤ (((N + 1) * 10 ^ 6 - 1 : ℤ) : ℚ) := by exact_mod_cast this
    rw [div_le_iff₀ (by positivity)]
    push_cast at this
    have e : ((N : ℚ) + 1 - 1 / 10 ^ 6) * 10 ^ 6 = ((N : ℚ) + 1) * 1000000 - 1 := by norm_num; ring
    rw [e]; exact this
  rw [Int.floor_eq_iff]
  constructor
  · exact lo
  · have : (0 : ℚ) < 1 / 10 ^ 6 := by positivity
    linarith

end Relsad
