/-
Third inductive invariant of the switching model (C05, second clause): the reported position of every
switch agrees with its line — an open disconnector / breaker never sits on a line that is in service.

Needs a little more structure of the configuration than the first invariant (`wfB2`, evaluated by the
driver on every configuration extracted from a real system): the disconnector list of a line is
complete, a line carries exactly the breaker that sits on it, every disconnector on a line of a section
is among the section's switches, and a section that lists one disconnector of a line lists all of them.
-/
import Relsad.Lemmas.ControlLiveL

namespace Relsad.Control

structure WF2 (C : Cfg) : Prop where
  disc_complete : ∀ d, d < C.disconLine.length → d ∈ (lineOf C (C.disconLine.getD d 0)).discons
  cb_of_line : ∀ c, c < C.cbLine.length → C.cbLine.getD c 0 < C.lines.length ∧ (lineOf C (C.cbLine.getD c 0)).cb = some c
  line_cb : ∀ l, l < C.lines.length → ∀ c, (lineOf C l).cb = some c → c < C.cbLine.length ∧ C.cbLine.getD c 0 = l
  own_sw : ∀ l, l < C.lines.length → ∀ d ∈ (lineOf C l).discons, Sw.discon d ∈ (secOf C (lineOf C l).sec).switches
  all_sw : ∀ k, k < C.secs.length → ∀ d, Sw.discon d ∈ (secOf C k).switches →
    ∀ d' ∈ (lineOf C (C.disconLine.getD d 0)).discons, Sw.discon d' ∈ (secOf C k).switches
  lines_nodup : ∀ n, n < C.nets.length → (netOf C n).lines.Nodup
  children_mg : ∀ n, n < C.nets.length → ∀ m ∈ (netOf C n).children, isMg C m = true
  cb_owned : ∀ c, c < C.cbLine.length → ∃ n, n < C.nets.length ∧ (netOf C n).cb = c
  sec_owned : ∀ k, k < C.secs.length → ∃ n, n < C.nets.length ∧ k ∈ (netOf C n).secs

theorem noDup_nodup : ∀ (l : List Nat), noDup l = true → l.Nodup
  | [], _ => List.nodup_nil
  | a :: as, h => by
    simp only [noDup, Bool.and_eq_true, Bool.not_eq_true', List.contains_eq_mem, decide_eq_false_iff_not] at h
    exact List.nodup_cons.mpr ⟨h.1, noDup_nodup as h.2⟩

theorem WF2.of_wfB2 (C : Cfg) (h : wfB2 C = true) : WF2 C := by
  unfold wfB2 at h
  simp only [Bool.and_eq_true, List.all_eq_true, List.mem_range, decide_eq_true_eq, List.contains_iff_mem, beq_iff_eq] at h
  obtain ⟨⟨⟨⟨⟨⟨h1, h2⟩, h3⟩, h4⟩, h5⟩, h6⟩, h7⟩ := h
  refine ⟨fun d hd => h1 d hd, fun c hc => h2 c hc, ?_, ?_, ?_, ?_, ?_, ?_, ?_⟩
  · intro l hl c hc
    have := (h3 l hl).1
    rw [hc] at this
    simpa using this
  · intro l hl d hd
    exact (h3 l hl).2 d hd
  · intro k hk d hd d' hd'
    have := h4 k hk _ hd
    simp only [List.all_eq_true, List.contains_iff_mem] at this
    exact this d' hd'
  · intro n hn
    exact noDup_nodup _ (h5 n hn).1
  · intro n hn m hm
    have := (h5 n hn).2 m hm
    simpa [isMg, netOf] using this
  · intro c hc
    have := h6 c hc
    simp only [List.any_eq_true, List.mem_range, beq_iff_eq] at this
    exact this
  · intro k hk
    have := h7 k hk
    simp only [List.any_eq_true, List.mem_range, List.contains_iff_mem] at this
    exact this

/-- switch positions agree with lines -/
structure SA (C : Cfg) (s : St) : Prop where
  discon : ∀ d, d < C.disconLine.length → gb s.dOpen d = true → gb s.conn (C.disconLine.getD d 0) = false
  breaker : ∀ c, c < C.cbLine.length → gb s.cbOpen c = true → gb s.conn (C.cbLine.getD c 0) = false

theorem SA.switchesAgree {C : Cfg} {s : St} (h : SA C s) : switchesAgree C s = true := by
  unfold Relsad.Control.switchesAgree
  rw [Bool.and_eq_true, List.all_eq_true, List.all_eq_true]
  constructor
  · intro d hd
    have hd' := List.mem_range.mp hd
    show (!(gb s.dOpen d && gb s.conn (C.disconLine.getD d 0))) = true
    cases hx : gb s.dOpen d
    · simp
    · rw [h.discon d hd' hx]; simp
  · intro c hc
    have hc' := List.mem_range.mp hc
    show (!(gb s.cbOpen c && gb s.conn (C.cbLine.getD c 0))) = true
    cases hx : gb s.cbOpen c
    · simp
    · rw [h.breaker c hc' hx]; simp

theorem SA.init (C : Cfg) : SA C (St.init C) :=
  ⟨fun d _ h => by rw [show gb (St.init C).dOpen d = false from gb_map_const _ _] at h; exact absurd h (by simp),
   fun c _ h => by rw [show gb (St.init C).cbOpen c = false from gb_map_const _ _] at h; exact absurd h (by simp)⟩

/-! ### opening operations -/

/-- an opening step: nothing is put in service, and every newly opened switch sits on a line that is out of service afterwards -/
structure OpensSA (C : Cfg) (s s' : St) : Prop where
  opens : Opens s s'
  len : SameLen s s'
  discon : ∀ d, gb s'.dOpen d = true → gb s.dOpen d = true ∨ gb s'.conn (C.disconLine.getD d 0) = false
  breaker : ∀ c, gb s'.cbOpen c = true → gb s.cbOpen c = true ∨ gb s'.conn (C.cbLine.getD c 0) = false

theorem OpensSA.refl (C : Cfg) (s : St) : OpensSA C s s := ⟨Opens.refl s, SameLen.refl s, fun _ h => Or.inl h, fun _ h => Or.inl h⟩

theorem conn_false_of_opens {a b : St} (h : Opens a b) (l : Nat) (hl : gb a.conn l = false) : gb b.conn l = false := by
  cases hx : gb b.conn l
  · rfl
  · rw [h.conn l hx] at hl; exact absurd hl (by simp)

theorem OpensSA.trans {C : Cfg} {a b c : St} (h1 : OpensSA C a b) (h2 : OpensSA C b c) : OpensSA C a c := by
  refine ⟨Opens.trans h1.opens h2.opens, SameLen.trans h1.len h2.len, ?_, ?_⟩
  · intro d hd
    rcases h2.discon d hd with h | h
    · rcases h1.discon d h with h' | h'
      · exact Or.inl h'
      · exact Or.inr (conn_false_of_opens h2.opens _ h')
    · exact Or.inr h
  · intro x hx
    rcases h2.breaker x hx with h | h
    · rcases h1.breaker x h with h' | h'
      · exact Or.inl h'
      · exact Or.inr (conn_false_of_opens h2.opens _ h')
    · exact Or.inr h

theorem opensSA_foldl {C : Cfg} {α : Type} (f : St → α → St) (P : St → Prop) (hP : ∀ s a, P s → P (f s a))
    (hf : ∀ s a, P s → OpensSA C s (f s a)) (l : List α) (s : St) (h : P s) : OpensSA C s (l.foldl f s) := by
  induction l generalizing s with
  | nil => exact OpensSA.refl C s
  | cons a as ih => exact OpensSA.trans (hf s a h) (ih (f s a) (hP s a h))

theorem SA.of_opensSA {C : Cfg} {s s' : St} (h : SA C s) (o : OpensSA C s s') : SA C s' := by
  refine ⟨?_, ?_⟩
  · intro d hd hx
    rcases o.discon d hx with h' | h'
    · exact conn_false_of_opens o.opens _ (h.discon d hd h')
    · exact h'
  · intro c hc hx
    rcases o.breaker c hx with h' | h'
    · exact conn_false_of_opens o.opens _ (h.breaker c hc h')
    · exact h'

theorem opensSA_lineDisconnect (C : Cfg) (s : St) (l : Nat) : OpensSA C s (lineDisconnect s l) :=
  ⟨opens_lineDisconnect s l, sameLen_lineDisconnect s l, fun _ h => Or.inl h, fun _ h => Or.inl h⟩

/-- lines are numbered below the length of the state's `conn` vector -/
def ConnSized (C : Cfg) (s : St) : Prop := s.conn.length = C.lines.length

theorem opensSA_disconOpen {C : Cfg} (w : WF C) (s : St) (hs : ConnSized C s) (d : Nat) (hd : d < C.disconLine.length) :
    OpensSA C s (disconOpen C s d) := by
  refine ⟨opens_disconOpen C s d, sameLen_disconOpen C s d, ?_, fun _ h => Or.inl h⟩
  intro e he
  by_cases hde : d = e
  · subst hde
    right
    show gb (s.conn.set (C.disconLine.getD d 0) false) (C.disconLine.getD d 0) = false
    exact gb_set_self _ _ _ (by rw [hs]; exact w.discon_lt d hd)
  · left
    change gb (s.dOpen.set d true) e = true at he
    rw [gb_set_ne _ _ _ _ hde] at he; exact he

theorem connSized_of_sameLen {C : Cfg} {s s' : St} (h : SameLen s s') (hs : ConnSized C s) : ConnSized C s' := h.conn.trans hs

theorem opensSA_cbOpenOp {C : Cfg} (w : WF C) (s : St) (hs : ConnSized C s) (c : Nat) (hc : c < C.cbLine.length)
    (hl : C.cbLine.getD c 0 < C.lines.length) : OpensSA C s (cbOpenOp C s c) := by
  unfold cbOpenOp
  simp only
  -- marking the breaker open, opening the line's disconnectors, taking the line out
  set s1 : St := { s with cbOpen := s.cbOpen.set c true } with hs1
  have hs1c : ConnSized C s1 := hs
  set s2 := (C.lines.getD (C.cbLine.getD c 0) default).discons.foldl (fun s d => if gb s.dOpen d then s else disconOpen C s d) s1 with hs2
  have o12 : OpensSA C s1 s2 := by
    refine opensSA_foldl _ (fun x => ConnSized C x ∧ True) ?_ ?_ _ s1 ⟨hs1c, trivial⟩
    · intro x d hx; split_ifs
      · exact hx
      · exact ⟨connSized_of_sameLen (sameLen_disconOpen C x d) hx.1, trivial⟩
    · intro x d hx; split_ifs
      · exact OpensSA.refl C x
      · by_cases hd : d < C.disconLine.length
        · exact opensSA_disconOpen w x hx.1 d hd
        · -- out-of-range index: nothing is marked, the line entry 0 is taken out (harmless)
          refine ⟨opens_disconOpen C x d, sameLen_disconOpen C x d, ?_, fun _ h => Or.inl h⟩
          intro e he
          by_cases hde : d = e
          · subst hde
            right
            have h0 : C.disconLine.getD d 0 = 0 := by
              rw [List.getD_eq_getElem?_getD, List.getElem?_eq_none (Nat.le_of_not_lt hd)]; rfl
            show gb (x.conn.set (C.disconLine.getD d 0) false) (C.disconLine.getD d 0) = false
            rw [gb_set]
            split_ifs
            · rfl
            · rename_i hne
              unfold gb
              rw [List.getD_eq_getElem?_getD, List.getElem?_eq_none]
              · rfl
              · by_contra hlt; exact hne ⟨rfl, Nat.lt_of_not_le hlt⟩
          · left
            change gb (x.dOpen.set d true) e = true at he
            rw [gb_set_ne _ _ _ _ hde] at he; exact he
  have hs2c : ConnSized C s2 := connSized_of_sameLen o12.len hs1c
  have o23 : OpensSA C s2 (lineDisconnect s2 (C.cbLine.getD c 0)) := opensSA_lineDisconnect C s2 _
  have hout : gb (lineDisconnect s2 (C.cbLine.getD c 0)).conn (C.cbLine.getD c 0) = false := by
    show gb (s2.conn.set _ false) _ = false
    exact gb_set_self _ _ _ (by rw [hs2c]; exact hl)
  have o13 := OpensSA.trans o12 o23
  have o01 : Opens s s1 := ⟨fun _ h => h, fun _ h => h, fun x h => by
    show gb (s.cbOpen.set c true) x = true
    rw [gb_set]; split_ifs
    · rfl
    · exact h⟩
  have l01 : SameLen s s1 := ⟨rfl, rfl, by simp [hs1], rfl, rfl⟩
  refine ⟨Opens.trans o01 o13.opens, SameLen.trans l01 o13.len, o13.discon, ?_⟩
  intro x hx
  by_cases hxc : x = c
  · subst hxc; exact Or.inr hout
  · rcases o13.breaker x hx with h | h
    · left
      change gb (s.cbOpen.set c true) x = true at h
      rw [gb_set_ne _ _ _ _ (fun e => hxc e.symm)] at h; exact h
    · exact Or.inr h


theorem opensSA_swOpen {C : Cfg} (w : WF C) (n : Nat) (hn : n < C.nets.length) (k : Nat) (hk : k ∈ (netOf C n).secs)
    (s : St) (hs : ConnSized C s) (sw : Sw) (hsw : sw ∈ (secOf C k).switches) : OpensSA C s (swOpen C s sw) := by
  cases sw with
  | discon d => exact opensSA_disconOpen w s hs d (w.sec_discon n hn k hk d hsw).1
  | breaker c =>
    have hc := (w.sec_breaker n hn k hk c hsw).1
    subst hc
    exact opensSA_cbOpenOp w s hs _ (w.cb_lt n hn) (by rw [w.cb_line n hn]; exact w.conn_lt n hn)

theorem opensSA_secDisconnect {C : Cfg} (w : WF C) (n : Nat) (hn : n < C.nets.length) (k : Nat) (hk : k ∈ (netOf C n).secs)
    (s : St) (hs : ConnSized C s) : OpensSA C s (secDisconnect C s k) := by
  unfold secDisconnect
  simp only
  set s1 : St := { s with secConn := s.secConn.set k false } with hs1
  have o01 : OpensSA C s s1 := ⟨⟨fun _ h => h, fun _ h => h, fun _ h => h⟩, ⟨rfl, by simp [hs1], rfl, rfl, rfl⟩, fun _ h => Or.inl h, fun _ h => Or.inl h⟩
  have o12 : OpensSA C s1 ((C.secs.getD k default).lines.foldl lineDisconnect s1) :=
    opensSA_foldl _ (fun _ => True) (fun _ _ _ => trivial) (fun x l _ => opensSA_lineDisconnect C x l) _ s1 trivial
  set s2 := (C.secs.getD k default).lines.foldl lineDisconnect s1 with hs2
  have hs2c : ConnSized C s2 := connSized_of_sameLen o12.len hs
  -- the switch fold: every switch met is a switch of the section
  have key : ∀ (sws : List Sw), (∀ sw ∈ sws, sw ∈ (secOf C k).switches) → ∀ x, ConnSized C x → OpensSA C x (sws.foldl (swOpen C) x) := by
    intro sws
    induction sws with
    | nil => intro _ x _; exact OpensSA.refl C x
    | cons a as ih =>
      intro hin x hx
      simp only [List.foldl_cons]
      have oa := opensSA_swOpen w n hn k hk x hx a (hin a List.mem_cons_self)
      exact OpensSA.trans oa (ih (fun sw h' => hin sw (List.mem_cons_of_mem _ h')) _ (connSized_of_sameLen oa.len hx))
  exact OpensSA.trans o01 (OpensSA.trans o12 (key _ (fun _ h' => h') s2 hs2c))

theorem opensSA_discAll {C : Cfg} (w : WF C) (n : Nat) (hn : n < C.nets.length) (ks : List Nat) (hks : ∀ k ∈ ks, k ∈ (netOf C n).secs)
    (s : St) (hs : ConnSized C s) : OpensSA C s (ks.foldl (secDisconnect C) s) := by
  induction ks generalizing s with
  | nil => exact OpensSA.refl C s
  | cons a as ih =>
    simp only [List.foldl_cons]
    have oa := opensSA_secDisconnect w n hn a (hks a List.mem_cons_self) s hs
    exact OpensSA.trans oa (ih (fun k h' => hks k (List.mem_cons_of_mem _ h')) _ (connSized_of_sameLen oa.len hs))

theorem SA.afterFail {C : Cfg} {s : St} (w : WF C) (hs : ConnSized C s) (h : SA C s) (l : Nat) (hl : l < C.lines.length) (rep : ℚ) :
    SA C (lineFail C s l rep) := by
  unfold Relsad.Control.lineFail
  simp only
  set s1 : St := { s with failed := s.failed.set l true, netFailed := s.netFailed.set (C.lines.getD l default).net true, rem := s.rem.set l rep } with hs1
  have h1 : SA C s1 := ⟨h.discon, h.breaker⟩
  have hs1c : ConnSized C s1 := hs
  split_ifs
  · set n := (C.lines.getD l default).net with hn
    have hnlt : n < C.nets.length := w.line_net l hl
    have o1 := opensSA_cbOpenOp w s1 hs1c (netOf C n).cb (w.cb_lt n hnlt) (by rw [w.cb_line n hnlt]; exact w.conn_lt n hnlt)
    have key : ∀ (ms : List Nat), (∀ m ∈ ms, m < C.nets.length) → ∀ x, ConnSized C x →
        OpensSA C x (ms.foldl (fun s m => cbOpenOp C s (C.nets.getD m default).cb) x) := by
      intro ms
      induction ms with
      | nil => intro _ x _; exact OpensSA.refl C x
      | cons a as ih =>
        intro hin x hx
        simp only [List.foldl_cons]
        have ha := hin a List.mem_cons_self
        have oa := opensSA_cbOpenOp w x hx (netOf C a).cb (w.cb_lt a ha) (by rw [w.cb_line a ha]; exact w.conn_lt a ha)
        exact OpensSA.trans oa (ih (fun m h' => hin m (List.mem_cons_of_mem _ h')) _ (connSized_of_sameLen oa.len hx))
    have o2 := key (C.nets.getD n default).children (fun m hm => (w.children n hnlt m hm).1) _ (connSized_of_sameLen o1.len hs1c)
    exact h1.of_opensSA (OpensSA.trans o1 o2)
  · exact h1


/-! ### reconnecting a section: which lines come back, which disconnectors are closed -/

/-- no open breaker sits on line `l` (breaker vector `cb`) -/
def BrOk (C : Cfg) (cb : List Bool) (l : Nat) : Prop := ∀ c, (lineOf C l).cb = some c → gb cb c = false

/-- the line-connecting fold of `Section.connect_manually` -/
theorem secLines_fold (C : Cfg) (ls : List Nat) (x : St) :
    let r := ls.foldl (fun s l =>
      match (C.lines.getD l default).cb with
      | some c => if gb s.cbOpen c then s else lineConnect s l
      | none => lineConnect s l) x
    r.dOpen = x.dOpen ∧ r.secConn = x.secConn ∧ r.cbOpen = x.cbOpen ∧
    (∀ l, gb r.conn l = true → gb x.conn l = true ∨ (l ∈ ls ∧ BrOk C x.cbOpen l)) := by
  induction ls generalizing x with
  | nil => exact ⟨rfl, rfl, rfl, fun _ h => Or.inl h⟩
  | cons a as ih =>
    simp only [List.foldl_cons]
    -- one step
    have step : ∀ (y : St), y = (match (C.lines.getD a default).cb with
        | some c => if gb x.cbOpen c then x else lineConnect x a
        | none => lineConnect x a) →
        y.dOpen = x.dOpen ∧ y.secConn = x.secConn ∧ y.cbOpen = x.cbOpen ∧
        (∀ l, gb y.conn l = true → gb x.conn l = true ∨ (l = a ∧ BrOk C x.cbOpen a)) := by
      intro y hy
      cases hcb : (C.lines.getD a default).cb with
      | none =>
        rw [hcb] at hy; subst hy
        refine ⟨rfl, rfl, rfl, ?_⟩
        intro l hl
        change gb (x.conn.set a true) l = true at hl
        rw [gb_set] at hl
        by_cases hc : a = l ∧ a < x.conn.length
        · exact Or.inr ⟨hc.1.symm, fun c hc' => by unfold lineOf at hc'; rw [hcb] at hc'; cases hc'⟩
        · rw [if_neg hc] at hl; exact Or.inl hl
      | some c =>
        rw [hcb] at hy
        by_cases ho : gb x.cbOpen c = true
        · simp only [ho, if_true] at hy; subst hy
          exact ⟨rfl, rfl, rfl, fun _ hl => Or.inl hl⟩
        · simp only [ho] at hy; subst hy
          refine ⟨rfl, rfl, rfl, ?_⟩
          intro l hl
          change gb (x.conn.set a true) l = true at hl
          rw [gb_set] at hl
          by_cases hc : a = l ∧ a < x.conn.length
          · refine Or.inr ⟨hc.1.symm, fun c' hc' => ?_⟩
            unfold lineOf at hc'; rw [hcb] at hc'
            have : c' = c := by injection hc' with e; exact e.symm
            rw [this]
            cases hx : gb x.cbOpen c
            · rfl
            · exact absurd hx ho
          · rw [if_neg hc] at hl; exact Or.inl hl
    obtain ⟨e1, e2, e3, e4⟩ := step _ rfl
    obtain ⟨f1, f2, f3, f4⟩ := ih (match (C.lines.getD a default).cb with
        | some c => if gb x.cbOpen c then x else lineConnect x a
        | none => lineConnect x a)
    refine ⟨f1.trans e1, f2.trans e2, f3.trans e3, ?_⟩
    intro l hl
    rcases f4 l hl with h | ⟨hin, hok⟩
    · rcases e4 l h with h' | ⟨hla, hok⟩
      · exact Or.inl h'
      · exact Or.inr ⟨hla ▸ List.mem_cons_self, hla ▸ hok⟩
    · exact Or.inr ⟨List.mem_cons_of_mem _ hin, by rw [e3] at hok; exact hok⟩

/-- one step of the switch-closing fold -/
def swStep (C : Cfg) (s : St) (sw : Sw) : St :=
  match sw with
  | .breaker _ => s
  | .discon d =>
    let lc := C.lines.getD (C.disconLine.getD d 0) default
    if !gb s.secConn lc.sec then s
    else match lc.cb with
      | some c => if gb s.cbOpen c then s else disconClose C s d
      | none => disconClose C s d

theorem swStep_spec (C : Cfg) (x : St) (sw : Sw) :
    (swStep C x sw).secConn = x.secConn ∧ (swStep C x sw).cbOpen = x.cbOpen ∧
    (∀ e, gb (swStep C x sw).dOpen e = true → gb x.dOpen e = true) ∧
    (∀ l, gb (swStep C x sw).conn l = true → gb x.conn l = true ∨
      ∃ d, sw = .discon d ∧ C.disconLine.getD d 0 = l ∧ gb x.secConn (lineOf C l).sec = true ∧ BrOk C x.cbOpen l) ∧
    (∀ d, sw = .discon d → gb x.secConn (lineOf C (C.disconLine.getD d 0)).sec = true → BrOk C x.cbOpen (C.disconLine.getD d 0) →
      gb (swStep C x sw).dOpen d = false) := by
  have closeSpec : ∀ d, (disconClose C x d).secConn = x.secConn ∧ (disconClose C x d).cbOpen = x.cbOpen ∧
      (∀ e, gb (disconClose C x d).dOpen e = true → gb x.dOpen e = true) ∧
      (∀ l, gb (disconClose C x d).conn l = true → gb x.conn l = true ∨ C.disconLine.getD d 0 = l) ∧
      gb (disconClose C x d).dOpen d = false := by
    intro d
    refine ⟨rfl, rfl, ?_, ?_, ?_⟩
    · intro e he
      change gb (x.dOpen.set d false) e = true at he
      exact (gb_set_true_imp _ _ _ he).1
    · intro l hl
      change gb (x.conn.set (C.disconLine.getD d 0) true) l = true at hl
      rw [gb_set] at hl
      by_cases hc : C.disconLine.getD d 0 = l ∧ C.disconLine.getD d 0 < x.conn.length
      · exact Or.inr hc.1
      · rw [if_neg hc] at hl; exact Or.inl hl
    · show gb (x.dOpen.set d false) d = false
      rw [gb_set]; split_ifs
      · rfl
      · rename_i hne
        unfold gb
        rw [List.getD_eq_getElem?_getD, List.getElem?_eq_none]
        · rfl
        · by_contra hlt; exact hne ⟨rfl, Nat.lt_of_not_le hlt⟩
  cases sw with
  | breaker c =>
    exact ⟨rfl, rfl, fun _ h => h, fun _ h => Or.inl h, fun d hd => by cases hd⟩
  | discon d =>
    unfold swStep
    simp only
    by_cases hsc : gb x.secConn (C.lines.getD (C.disconLine.getD d 0) default).sec = true
    · simp only [hsc, Bool.not_true, Bool.false_eq_true, if_false]
      cases hcb : (C.lines.getD (C.disconLine.getD d 0) default).cb with
      | none =>
        obtain ⟨c1, c2, c3, c4, c5⟩ := closeSpec d
        refine ⟨c1, c2, c3, ?_, ?_⟩
        · intro l hl
          rcases c4 l hl with h | h
          · exact Or.inl h
          · refine Or.inr ⟨d, rfl, h, ?_, ?_⟩
            · rw [← h]; exact hsc
            · intro c hc; unfold lineOf at hc; rw [← h, hcb] at hc; cases hc
        · intro d' hd' _ _
          have : d' = d := by injection hd' with e; exact e.symm
          rw [this]; exact c5
      | some c =>
        simp only
        by_cases ho : gb x.cbOpen c = true
        · simp only [ho, if_true]
          refine ⟨by trivial, by trivial, fun _ h => h, fun _ h => Or.inl h, ?_⟩
          intro d' hd' _ hok
          have : d' = d := by injection hd' with e; exact e.symm
          rw [this] at hok
          have := hok c (by unfold lineOf; exact hcb)
          rw [ho] at this; exact absurd this (by simp)
        · simp only [ho]
          obtain ⟨c1, c2, c3, c4, c5⟩ := closeSpec d
          refine ⟨c1, c2, c3, ?_, ?_⟩
          · intro l hl
            rcases c4 l hl with h | h
            · exact Or.inl h
            · refine Or.inr ⟨d, rfl, h, ?_, ?_⟩
              · rw [← h]; exact hsc
              · intro c' hc'
                unfold lineOf at hc'; rw [← h, hcb] at hc'
                have : c' = c := by injection hc' with e; exact e.symm
                rw [this]
                cases hx : gb x.cbOpen c
                · rfl
                · exact absurd hx ho
          · intro d' hd' _ _
            have : d' = d := by injection hd' with e; exact e.symm
            rw [this]; exact c5
    · have hsc' : gb x.secConn (C.lines.getD (C.disconLine.getD d 0) default).sec = false := by
        cases hx : gb x.secConn (C.lines.getD (C.disconLine.getD d 0) default).sec
        · rfl
        · exact absurd hx hsc
      simp only [hsc', Bool.not_false, if_true]
      refine ⟨by trivial, by trivial, fun _ h => h, fun _ h => Or.inl h, ?_⟩
      intro d' hd' hs' _
      have : d' = d := by injection hd' with e; exact e.symm
      rw [this] at hs'
      unfold lineOf at hs'
      rw [hsc'] at hs'; exact absurd hs' (by simp)

theorem swFold_spec (C : Cfg) (sws : List Sw) (x : St) :
    let r := sws.foldl (swStep C) x
    r.secConn = x.secConn ∧ r.cbOpen = x.cbOpen ∧
    (∀ e, gb r.dOpen e = true → gb x.dOpen e = true) ∧
    (∀ l, gb r.conn l = true → gb x.conn l = true ∨
      ∃ d, Sw.discon d ∈ sws ∧ C.disconLine.getD d 0 = l ∧ gb x.secConn (lineOf C l).sec = true ∧ BrOk C x.cbOpen l) ∧
    (∀ d, Sw.discon d ∈ sws → gb x.secConn (lineOf C (C.disconLine.getD d 0)).sec = true → BrOk C x.cbOpen (C.disconLine.getD d 0) →
      gb r.dOpen d = false) := by
  induction sws generalizing x with
  | nil => exact ⟨rfl, rfl, fun _ h => h, fun _ h => Or.inl h, fun d hd => by cases hd⟩
  | cons a as ih =>
    simp only [List.foldl_cons]
    obtain ⟨e1, e2, e3, e4, e5⟩ := swStep_spec C x a
    obtain ⟨f1, f2, f3, f4, f5⟩ := ih (swStep C x a)
    refine ⟨f1.trans e1, f2.trans e2, fun e he => e3 e (f3 e he), ?_, ?_⟩
    · intro l hl
      rcases f4 l hl with h | ⟨d, hd, hdl, hsc, hok⟩
      · rcases e4 l h with h' | ⟨d, hd, hdl, hsc, hok⟩
        · exact Or.inl h'
        · exact Or.inr ⟨d, hd ▸ List.mem_cons_self, hdl, hsc, hok⟩
      · exact Or.inr ⟨d, List.mem_cons_of_mem _ hd, hdl, by rw [e1] at hsc; exact hsc, by rw [e2] at hok; exact hok⟩
    · intro d hd hsc hok
      rcases List.mem_cons.mp hd with h | h
      · have h0 := e5 d h.symm hsc hok
        cases hx : gb (List.foldl (swStep C) (swStep C x a) as).dOpen d
        · rfl
        · rw [f3 d hx] at h0; exact absurd h0 (by simp)
      · exact f5 d h (by rw [e1]; exact hsc) (by rw [e2]; exact hok)

theorem secConnectManually_eq (C : Cfg) (s : St) (k : Nat) :
    secConnectManually C s k =
      (C.secs.getD k default).switches.foldl (swStep C)
        ((C.secs.getD k default).lines.foldl (fun s l =>
          match (C.lines.getD l default).cb with
          | some c => if gb s.cbOpen c then s else lineConnect s l
          | none => lineConnect s l) { s with secConn := s.secConn.set k true }) := rfl

/-- what reconnecting section `k` does to lines and switches -/
theorem secConnectManually_sw (C : Cfg) (s : St) (k : Nat) :
    let r := secConnectManually C s k
    r.cbOpen = s.cbOpen ∧
    (∀ e, gb r.dOpen e = true → gb s.dOpen e = true) ∧
    (∀ l, gb r.conn l = true → gb s.conn l = true ∨ (l ∈ (secOf C k).lines ∧ BrOk C s.cbOpen l) ∨
      ∃ d, Sw.discon d ∈ (secOf C k).switches ∧ C.disconLine.getD d 0 = l ∧ gb (s.secConn.set k true) (lineOf C l).sec = true ∧ BrOk C s.cbOpen l) ∧
    (∀ d, Sw.discon d ∈ (secOf C k).switches → gb (s.secConn.set k true) (lineOf C (C.disconLine.getD d 0)).sec = true →
      BrOk C s.cbOpen (C.disconLine.getD d 0) → gb r.dOpen d = false) := by
  intro r
  have hr : r = secConnectManually C s k := rfl
  rw [secConnectManually_eq] at hr
  obtain ⟨a1, a2, a3, a4⟩ := secLines_fold C (C.secs.getD k default).lines { s with secConn := s.secConn.set k true }
  obtain ⟨b1, b2, b3, b4, b5⟩ := swFold_spec C (C.secs.getD k default).switches
    ((C.secs.getD k default).lines.foldl (fun s l =>
      match (C.lines.getD l default).cb with
      | some c => if gb s.cbOpen c then s else lineConnect s l
      | none => lineConnect s l) { s with secConn := s.secConn.set k true })
  rw [← hr] at b1 b2 b3 b4 b5
  refine ⟨b2.trans a3, fun e he => by have := b3 e he; rw [a1] at this; exact this, ?_, ?_⟩
  · intro l hl
    rcases b4 l hl with h | ⟨d, hd, hdl, hsc, hok⟩
    · rcases a4 l h with h' | h'
      · exact Or.inl h'
      · exact Or.inr (Or.inl h')
    · exact Or.inr (Or.inr ⟨d, hd, hdl, by rw [a2] at hsc; exact hsc, by rw [a3] at hok; exact hok⟩)
  · intro d hd hsc hok
    exact b5 d hd (by rw [a2]; exact hsc) (by rw [a3]; exact hok)


theorem SA.reconnect {C : Cfg} {s : St} (w : WF C) (w2 : WF2 C) (hsz : Sz C s) (h : SA C s) (n : Nat) (hn : n < C.nets.length)
    (k : Nat) (hk : k ∈ (netOf C n).secs) : SA C (secConnectManually C s k) := by
  obtain ⟨c1, c2, c3, c4⟩ := secConnectManually_sw C s k
  have hklt : k < s.secConn.length := by rw [hsz.secConn]; exact w.sec_lt n hn k hk
  have hksec : k < C.secs.length := w.sec_lt n hn k hk
  refine ⟨?_, ?_⟩
  · intro d hd hopen
    have hs0 := h.discon d hd (c2 d hopen)
    have hllt : C.disconLine.getD d 0 < C.lines.length := w.discon_lt d hd
    have hdin : d ∈ (lineOf C (C.disconLine.getD d 0)).discons := w2.disc_complete d hd
    cases hx : gb (secConnectManually C s k).conn (C.disconLine.getD d 0)
    · rfl
    · exfalso
      rcases c3 _ hx with h1 | ⟨hin, hok⟩ | ⟨d', hd', hdl, hsc, hok⟩
      · rw [hs0] at h1; exact absurd h1 (by simp)
      · have hseck : (lineOf C (C.disconLine.getD d 0)).sec = k := (w.sec_lines n hn k hk _ hin).2.1
        have hsw : Sw.discon d ∈ (secOf C k).switches := hseck ▸ w2.own_sw _ hllt d hdin
        have hcl := c4 d hsw (by rw [hseck]; exact gb_set_self _ _ _ hklt) hok
        rw [hcl] at hopen; exact absurd hopen (by simp)
      · have hsw : Sw.discon d ∈ (secOf C k).switches := w2.all_sw k hksec d' hd' d (by rw [hdl]; exact hdin)
        have hcl := c4 d hsw hsc hok
        rw [hcl] at hopen; exact absurd hopen (by simp)
  · intro c hc hopen
    rw [c1] at hopen
    have hs0 := h.breaker c hc hopen
    have hcb := (w2.cb_of_line c hc).2
    cases hx : gb (secConnectManually C s k).conn (C.cbLine.getD c 0)
    · rfl
    · exfalso
      rcases c3 _ hx with h1 | ⟨_, hok⟩ | ⟨_, _, _, _, hok⟩
      · rw [hs0] at h1; exact absurd h1 (by simp)
      · rw [hok c hcb] at hopen; exact absurd hopen (by simp)
      · rw [hok c hcb] at hopen; exact absurd hopen (by simp)

/-- closing a breaker: its line's disconnectors are closed (when the line's section is in service), then the line comes back -/
theorem cbCloseOp_sw (C : Cfg) (s : St) (c : Nat) :
    let r := cbCloseOp C s c
    let l0 := C.cbLine.getD c 0
    r.cbOpen = s.cbOpen.set c false ∧
    (∀ e, gb r.dOpen e = true → gb s.dOpen e = true) ∧
    (∀ l, gb r.conn l = true → gb s.conn l = true ∨ (l = l0 ∨ ∃ d ∈ (lineOf C l0).discons, C.disconLine.getD d 0 = l)) ∧
    (gb s.secConn (lineOf C l0).sec = true → ∀ d ∈ (lineOf C l0).discons, gb r.dOpen d = false) := by
  intro r l0
  have key : ∀ (ds : List Nat) (x : St),
      let y := ds.foldl (fun s d => if gb s.dOpen d && gb s.secConn (C.lines.getD l0 default).sec then disconClose C s d else s) x
      y.cbOpen = x.cbOpen ∧ y.secConn = x.secConn ∧ (∀ e, gb y.dOpen e = true → gb x.dOpen e = true) ∧
      (∀ l, gb y.conn l = true → gb x.conn l = true ∨ ∃ d ∈ ds, C.disconLine.getD d 0 = l) ∧
      (gb x.secConn (C.lines.getD l0 default).sec = true → ∀ d ∈ ds, gb y.dOpen d = false) := by
    intro ds
    induction ds with
    | nil => intro x; exact ⟨rfl, rfl, fun _ h => h, fun _ h => Or.inl h, fun _ d hd => by cases hd⟩
    | cons a as ih =>
      intro x
      simp only [List.foldl_cons]
      set x1 : St := (if gb x.dOpen a && gb x.secConn (C.lines.getD l0 default).sec then disconClose C x a else x) with hx1
      have e : x1.cbOpen = x.cbOpen ∧ x1.secConn = x.secConn ∧ (∀ e, gb x1.dOpen e = true → gb x.dOpen e = true) ∧
          (∀ l, gb x1.conn l = true → gb x.conn l = true ∨ C.disconLine.getD a 0 = l) ∧
          (gb x.secConn (C.lines.getD l0 default).sec = true → gb x1.dOpen a = false) := by
        rw [hx1]
        split_ifs with hc
        · refine ⟨rfl, rfl, ?_, ?_, ?_⟩
          · intro e he
            change gb (x.dOpen.set a false) e = true at he
            exact (gb_set_true_imp _ _ _ he).1
          · intro l hl
            change gb (x.conn.set (C.disconLine.getD a 0) true) l = true at hl
            rw [gb_set] at hl
            by_cases hcc : C.disconLine.getD a 0 = l ∧ C.disconLine.getD a 0 < x.conn.length
            · exact Or.inr hcc.1
            · rw [if_neg hcc] at hl; exact Or.inl hl
          · intro _
            show gb (x.dOpen.set a false) a = false
            rw [gb_set]; split_ifs
            · rfl
            · rename_i hne
              unfold gb
              rw [List.getD_eq_getElem?_getD, List.getElem?_eq_none]
              · rfl
              · by_contra hlt; exact hne ⟨rfl, Nat.lt_of_not_le hlt⟩
        · refine ⟨rfl, rfl, fun _ h => h, fun _ h => Or.inl h, ?_⟩
          intro hsc
          rw [hsc] at hc
          simp only [Bool.and_true] at hc
          cases hx : gb x.dOpen a
          · rfl
          · exact absurd hx hc
      obtain ⟨e1, e2, e3, e4, e5⟩ := e
      obtain ⟨f1, f2, f3, f4, f5⟩ := ih x1
      refine ⟨f1.trans e1, f2.trans e2, fun e he => e3 e (f3 e he), ?_, ?_⟩
      · intro l hl
        rcases f4 l hl with h | ⟨d, hd, hdl⟩
        · rcases e4 l h with h' | h'
          · exact Or.inl h'
          · exact Or.inr ⟨a, List.mem_cons_self, h'⟩
        · exact Or.inr ⟨d, List.mem_cons_of_mem _ hd, hdl⟩
      · intro hsc d hd
        rcases List.mem_cons.mp hd with h | h
        · have h0 := e5 hsc
          rw [h]
          cases hx : gb (List.foldl (fun s d => if gb s.dOpen d && gb s.secConn (C.lines.getD l0 default).sec then disconClose C s d else s) x1 as).dOpen a
          · rfl
          · rw [f3 a hx] at h0; exact absurd h0 (by simp)
        · exact f5 (by rw [e2]; exact hsc) d h
  obtain ⟨k1, k2, k3, k4, k5⟩ := key (C.lines.getD l0 default).discons { s with cbOpen := s.cbOpen.set c false }
  have hr : r = lineConnect ((C.lines.getD l0 default).discons.foldl (fun s d => if gb s.dOpen d && gb s.secConn (C.lines.getD l0 default).sec then disconClose C s d else s)
      { s with cbOpen := s.cbOpen.set c false }) l0 := rfl
  refine ⟨?_, ?_, ?_, ?_⟩
  · rw [hr]; exact k1
  · intro e he; rw [hr] at he; exact k3 e he
  · intro l hl
    rw [hr] at hl
    change gb (List.set _ l0 true) l = true at hl
    rw [gb_set] at hl
    split_ifs at hl with hc
    · exact Or.inr (Or.inl hc.1.symm)
    · rcases k4 l hl with h | ⟨d, hd, hdl⟩
      · exact Or.inl h
      · exact Or.inr (Or.inr ⟨d, hd, hdl⟩)
  · intro hsc d hd
    rw [hr]
    exact k5 hsc d hd

theorem SA.closeBreaker {C : Cfg} {s : St} (w : WF C) (w2 : WF2 C) (hsz : Sz C s) (h : SA C s) (n : Nat) (hn : n < C.nets.length)
    (hsc : gb s.secConn (headSec C n) = true) : SA C (cbCloseOp C s (netOf C n).cb) := by
  obtain ⟨c1, c2, c3, c4⟩ := cbCloseOp_sw C s (netOf C n).cb
  have hl0 : C.cbLine.getD (netOf C n).cb 0 = (netOf C n).connLine := w.cb_line n hn
  have hclt : (netOf C n).cb < C.cbLine.length := w.cb_lt n hn
  have hl0lt : (netOf C n).connLine < C.lines.length := w.conn_lt n hn
  rw [hl0] at c3 c4
  -- every line the operation may connect is the breaker's line
  have honly : ∀ l, gb (cbCloseOp C s (netOf C n).cb).conn l = true → gb s.conn l = true ∨ l = (netOf C n).connLine := by
    intro l hl
    rcases c3 l hl with h1 | h1 | ⟨d, hd, hdl⟩
    · exact Or.inl h1
    · exact Or.inr h1
    · exact Or.inr (hdl ▸ (w.line_discons _ hl0lt d hd).2)
  refine ⟨?_, ?_⟩
  · intro d hd hopen
    have hs0 := h.discon d hd (c2 d hopen)
    cases hx : gb (cbCloseOp C s (netOf C n).cb).conn (C.disconLine.getD d 0)
    · rfl
    · exfalso
      rcases honly _ hx with h1 | h1
      · rw [hs0] at h1; exact absurd h1 (by simp)
      · have hdin : d ∈ (lineOf C (netOf C n).connLine).discons := h1 ▸ w2.disc_complete d hd
        have := c4 hsc d hdin
        rw [this] at hopen; exact absurd hopen (by simp)
  · intro c hc hopen
    rw [c1, gb_set] at hopen
    by_cases hcc : (netOf C n).cb = c ∧ (netOf C n).cb < s.cbOpen.length
    · rw [if_pos hcc] at hopen; exact absurd hopen (by simp)
    · rw [if_neg hcc] at hopen
      have hs0 := h.breaker c hc hopen
      cases hx : gb (cbCloseOp C s (netOf C n).cb).conn (C.cbLine.getD c 0)
      · rfl
      · exfalso
        rcases honly _ hx with h1 | h1
        · rw [hs0] at h1; exact absurd h1 (by simp)
        · have hcb1 := (w2.cb_of_line c hc).2
          have hcb2 := (w2.cb_of_line _ hclt).2
          rw [h1] at hcb1; rw [hl0] at hcb2
          rw [hcb1] at hcb2
          have : c = (netOf C n).cb := by injection hcb2
          exact hcc ⟨this.symm, by rw [hsz.cbOpen]; exact hclt⟩


/-! ### everything else leaves switches and lines alone -/

theorem SA.congr {C : Cfg} {s s' : St} (h : SA C s) (hd : s'.dOpen = s.dOpen) (hb : s'.cbOpen = s.cbOpen) (hc : s'.conn = s.conn) : SA C s' :=
  ⟨fun d hd' hx => by rw [hd] at hx; rw [hc]; exact h.discon d hd' hx, fun c hc' hx => by rw [hb] at hx; rw [hc]; exact h.breaker c hc' hx⟩

theorem remFold_dOpen (T : ℚ) (ls : List Nat) (s : St) :
    (ls.foldl (fun (s : St) l => { s with rem := s.rem.set l (gr s.rem l + T) }) s).dOpen = s.dOpen := by
  induction ls generalizing s with
  | nil => rfl
  | cons a as ih => simp only [List.foldl_cons]; exact ih _

theorem flagStep_sw (C : Cfg) (n : Nat) (s : St) (k : Nat) :
    (flagStep C n s k).dOpen = s.dOpen ∧ (flagStep C n s k).cbOpen = s.cbOpen ∧ (flagStep C n s k).conn = s.conn := by
  unfold flagStep
  simp only
  by_cases hf : anyFailed s (C.secs.getD k default).lines = true
  · rw [if_pos hf]
    exact ⟨remFold_dOpen _ _ _, (remFold_fields _ _ _).2.2.1, (remFold_fields _ _ _).1⟩
  · rw [if_neg hf]; exact ⟨rfl, rfl, rfl⟩

theorem flagStepA_sw (C : Cfg) (n : Nat) (cm : Comm) (s : St) (k : Nat) :
    (flagStepA C n cm s k).dOpen = s.dOpen ∧ (flagStepA C n cm s k).cbOpen = s.cbOpen ∧ (flagStepA C n cm s k).conn = s.conn := by
  unfold flagStepA
  simp only
  by_cases hf : anyFailed s (C.secs.getD k default).lines = true
  · rw [if_pos hf]
    exact ⟨remFold_dOpen _ _ _, (remFold_fields _ _ _).2.2.1, (remFold_fields _ _ _).1⟩
  · rw [if_neg hf]; exact ⟨rfl, rfl, rfl⟩

theorem sw_foldl_eq {α : Type} (f : St → α → St)
    (hf : ∀ s a, (f s a).dOpen = s.dOpen ∧ (f s a).cbOpen = s.cbOpen ∧ (f s a).conn = s.conn) (l : List α) (s : St) :
    (l.foldl f s).dOpen = s.dOpen ∧ (l.foldl f s).cbOpen = s.cbOpen ∧ (l.foldl f s).conn = s.conn := by
  induction l generalizing s with
  | nil => exact ⟨rfl, rfl, rfl⟩
  | cons a as ih =>
    simp only [List.foldl_cons]
    obtain ⟨a1, a2, a3⟩ := ih (f s a)
    obtain ⟨b1, b2, b3⟩ := hf s a
    exact ⟨a1.trans b1, a2.trans b2, a3.trans b3⟩

theorem SA.recoAll {C : Cfg} (w : WF C) (w2 : WF2 C) (n : Nat) (hn : n < C.nets.length) (ks : List Nat) (s : St) (h : Inv C s)
    (hA : AllClear C s n) (sa : SA C s) (hks : ∀ k ∈ ks, k ∈ (netOf C n).secs) : SA C (ks.foldl (recoStep C n) s) := by
  induction ks generalizing s with
  | nil => exact sa
  | cons a as ih =>
    simp only [List.foldl_cons]
    have ha := hks a List.mem_cons_self
    obtain ⟨i1, a1, _, _⟩ := recoStep_spec w n hn s h hA a ha
    have sa1 : SA C (recoStep C n s a) := by
      unfold recoStep
      simp only
      split_ifs
      · exact sa
      · exact (sa.reconnect w w2 h.sz n hn a ha).congr rfl rfl rfl
    exact ih (recoStep C n s a) i1 a1 sa1 (fun k hk => hks k (List.mem_cons_of_mem _ hk))

/-- the line / sensor check keeps switch positions and lines in agreement -/
theorem SA.checkG {C : Cfg} (w : WF C) (w2 : WF2 C) (n : Nat) (hn : n < C.nets.length) (f : St → Nat → St)
    (hspec : ∀ (s : St) (k : Nat), Inv C s → k ∈ (netOf C n).secs →
      Inv C (f s k) ∧ (f s k).failed = s.failed ∧ (f s k).conn = s.conn ∧ (f s k).cbOpen = s.cbOpen ∧
      (f s k).secConn = (if anyFailed s (secOf C k).lines then s.secConn.set k false else s.secConn))
    (hsw : ∀ s k, (f s k).dOpen = s.dOpen ∧ (f s k).cbOpen = s.cbOpen ∧ (f s k).conn = s.conn)
    (s : St) (h : Inv C s) (sa : SA C s) :
    SA C (((netOf C n).secs.filter (fun k => !gb s.secConn k)).foldl (recoStep C n)
            (((netOf C n).secs.filter (fun k => gb s.secConn k)).foldl f s)) := by
  have hc : ∀ k ∈ (netOf C n).secs.filter (fun k => gb s.secConn k), k ∈ (netOf C n).secs := fun k hk => (List.mem_filter.mp hk).1
  have hd : ∀ k ∈ (netOf C n).secs.filter (fun k => !gb s.secConn k), k ∈ (netOf C n).secs := fun k hk => (List.mem_filter.mp hk).1
  have fa := flagAllG w n hn f hspec _ s h hc
  obtain ⟨e1, e2, e3⟩ := sw_foldl_eq f hsw ((netOf C n).secs.filter (fun k => gb s.secConn k)) s
  set mid := ((netOf C n).secs.filter (fun k => gb s.secConn k)).foldl f s with hmid
  have hA : AllClear C mid n := by
    intro k hk hsc l hl
    rw [fa.failed]
    exact fa.clear k (List.mem_filter.mpr ⟨hk, fa.secMono k hsc⟩) hsc l hl
  exact SA.recoAll w w2 n hn _ mid fa.inv hA (sa.congr e1 e2 e3) hd

theorem SA.checkBreaker {C : Cfg} {s : St} (w : WF C) (w2 : WF2 C) (h : Inv C s) (sa : SA C s) (n : Nat) (hn : n < C.nets.length) :
    SA C (checkBreakerManually C s n) := by
  unfold checkBreakerManually
  simp only
  have d := discAll w n hn (s.failedSecs.getD n []) s h (fun k hk => hk)
  have o := opensSA_discAll w n hn (s.failedSecs.getD n []) (fun k hk => h.fs n hn k hk) s h.sz.conn
  have sa1 : SA C ((s.failedSecs.getD n []).foldl (secDisconnect C) s) := sa.of_opensSA o
  split_ifs with _ _ _ h4
  · exact sa
  · exact sa
  · -- reclosure: the head section is in service (it is not listed, and unlisted out-of-service head sections do not exist)
    set fs := s.failedSecs.getD n [] with hfs
    set s1 := fs.foldl (secDisconnect C) s with hs1
    simp only [Bool.and_eq_true, Bool.not_eq_true'] at h4
    obtain ⟨_, hnotin⟩ := h4
    have hk0 : headSec C n ∉ fs := by
      intro hin
      rw [List.any_eq_false] at hnotin
      apply hnotin _ hin
      have hm := w.line_mem_sec (netOf C n).connLine (w.conn_lt n hn)
      simpa [headSec, secOf, netOf, lineOf] using hm
    have hsc0 : gb s1.secConn (headSec C n) = true := by
      cases hx : gb s1.secConn (headSec C n)
      · have := d.inv.head n hn hx
        rw [d.failedSecs] at this; exact absurd this hk0
      · rfl
    have sa2 : SA C (cbCloseOp C s1 (netOf C n).cb) := sa1.closeBreaker w w2 d.inv.sz n hn hsc0
    have c2 := cbCloseOp_conn w s1 n hn
    have hsz2 : Sz C (cbCloseOp C s1 (netOf C n).cb) := (sameLen_cbCloseOp C s1 _).sz d.inv.sz
    have sa3 := sa2.reconnect w w2 hsz2 n hn (headSec C n) (headSec_mem w n hn)
    exact sa3.congr rfl rfl rfl
  · exact sa1
  · exact sa


/-! ### loops, increments -/

structure Triple (C : Cfg) (s : St) : Prop where
  both : Both C s
  sa : SA C s

theorem childFold_dOpen (C : Cfg) (n : Nat) (ms : List Nat) (x : St) :
    (ms.foldl (fun (s : St) m => if gb s.cbOpen (C.nets.getD m default).cb then { s with pTimer := s.pTimer.set m (gr s.timer n) } else s) x).dOpen = x.dOpen := by
  induction ms generalizing x with
  | nil => rfl
  | cons m ms ih =>
    simp only [List.foldl_cons]
    split_ifs
    · exact ih _
    · exact ih _

theorem Triple.loopCore {C : Cfg} (w : WF C) (w2 : WF2 C) (n : Nat) (hn : n < C.nets.length) (s1 : St) (t1 : Triple C s1) (chk : St → St)
    (hchk : ∀ s2, Inv C s2 → Inv C (chk s2) ∧ AllClear C (chk s2) n)
    (hchk2 : ∀ s2, Inv C s2 → Listed C s2 n →
      (∀ k ∈ (netOf C n).secs, gb (chk s2).secConn k = false → HasFailed C (chk s2) k) ∧ Listed C (chk s2) n ∧ (chk s2).check = s2.check ∧
      (chk s2).failed = s2.failed ∧ (∀ j, j ∉ (netOf C n).secs → gb (chk s2).secConn j = gb s2.secConn j) ∧
      (∀ m, m ≠ n → (chk s2).failedSecs.getD m [] = s2.failedSecs.getD m []))
    (hchkSA : ∀ s2, Inv C s2 → SA C s2 → SA C (chk s2))
    (g : St → St)
    (hg : ∀ a, (g a).conn = a.conn ∧ (g a).failed = a.failed ∧ (g a).cbOpen = a.cbOpen ∧ (g a).secConn = a.secConn ∧
      (g a).failedSecs = a.failedSecs ∧ (g a).check = a.check)
    (hgd : ∀ a, (g a).dOpen = a.dOpen) :
    Triple C (checkBreakerManually C
      (if gb (if gb s1.cbOpen (C.nets.getD n default).cb && decide (gr s1.timer n ≤ 0) then { s1 with check := s1.check.set n true } else s1).check n
       then { g (chk (if gb s1.cbOpen (C.nets.getD n default).cb && decide (gr s1.timer n ≤ 0) then { s1 with check := s1.check.set n true } else s1)) with
              check := (g (chk (if gb s1.cbOpen (C.nets.getD n default).cb && decide (gr s1.timer n ≤ 0) then { s1 with check := s1.check.set n true } else s1))).check.set n false }
       else (if gb s1.cbOpen (C.nets.getD n default).cb && decide (gr s1.timer n ≤ 0) then { s1 with check := s1.check.set n true } else s1)) n) := by
  refine ⟨Both.loopCore w n hn s1 t1.both chk hchk hchk2 g hg, ?_⟩
  set s2 : St := (if gb s1.cbOpen (C.nets.getD n default).cb && decide (gr s1.timer n ≤ 0) then { s1 with check := s1.check.set n true } else s1) with hs2
  have h2 : Inv C s2 := by
    rw [hs2]; split_ifs
    · exact t1.both.inv.congr rfl rfl rfl rfl rfl (by simp)
    · exact t1.both.inv
  have sa2 : SA C s2 := by
    rw [hs2]; split_ifs
    · exact t1.sa.congr rfl rfl rfl
    · exact t1.sa
  by_cases hck : gb s2.check n = true
  · rw [if_pos hck]
    obtain ⟨i3, _⟩ := hchk s2 h2
    obtain ⟨g1, g2, g3, g4, g5, g6⟩ := hg (chk s2)
    have i4 : Inv C { g (chk s2) with check := (g (chk s2)).check.set n false } :=
      i3.congr g1 g2 g3 g4 g5 (by simp [g6])
    have sa4 : SA C { g (chk s2) with check := (g (chk s2)).check.set n false } :=
      (hchkSA s2 h2 sa2).congr (hgd _) g3 g1
    exact sa4.checkBreaker w w2 i4 n hn
  · rw [if_neg hck]
    exact sa2.checkBreaker w w2 h2 n hn

theorem SA.checkLines {C : Cfg} {s : St} (w : WF C) (w2 : WF2 C) (h : Inv C s) (sa : SA C s) (n : Nat) (hn : n < C.nets.length) :
    SA C (checkLinesManually C s n) := by
  rw [checkLinesManually_eq]
  exact SA.checkG w w2 n hn (flagStep C n) (fun s' k hs' hk => flagStep_spec w n hn s' hs' k hk) (flagStep_sw C n) s h sa

theorem SA.checkSens {C : Cfg} {s : St} (w : WF C) (w2 : WF2 C) (h : Inv C s) (sa : SA C s) (n : Nat) (hn : n < C.nets.length) (cm : Comm) :
    SA C (checkSensors C s n cm) := by
  rw [checkSensors_eq]
  exact SA.checkG w w2 n hn (flagStepA C n cm) (fun s' k hs' hk => flagStepA_spec w n hn cm s' hs' k hk) (flagStepA_sw C n cm) s h sa

theorem Triple.distLoop {C : Cfg} {s : St} (w : WF C) (w2 : WF2 C) (t : Triple C s) (n : Nat) (hn : n < C.nets.length) (dt : ℚ) :
    Triple C (distLoop C s n dt) := by
  unfold Relsad.Control.distLoop
  simp only []
  have t1 : Triple C { s with timer := s.timer.set n (tick (gr s.timer n) dt) } :=
    ⟨⟨t.both.inv.congr rfl rfl rfl rfl rfl rfl, t.both.inv2.congr rfl rfl rfl rfl⟩, t.sa.congr rfl rfl rfl⟩
  exact Triple.loopCore w w2 n hn _ t1 (fun x => checkLinesManually C x n)
    (fun s2 h2 => by obtain ⟨i, a, _, _⟩ := h2.checkLines w n hn; exact ⟨i, a⟩)
    (fun s2 h2 hL => manualCheck2 w n hn s2 h2 hL)
    (fun s2 h2 sa2 => sa2.checkLines w w2 h2 n hn)
    (fun a => (C.nets.getD n default).children.foldl (fun (s : St) m =>
        if gb s.cbOpen (C.nets.getD m default).cb then { s with pTimer := s.pTimer.set m (gr s.timer n) } else s) a)
    (fun a => childFold_fields C n _ a) (fun a => childFold_dOpen C n _ a)

theorem Triple.distLoopA {C : Cfg} {s : St} (w : WF C) (w2 : WF2 C) (t : Triple C s) (n : Nat) (hn : n < C.nets.length) (dt : ℚ) (cm : Comm) :
    Triple C (distLoopA C s n dt cm) := by
  unfold Relsad.Control.distLoopA
  simp only []
  have t1 : Triple C { s with timer := s.timer.set n (tick (gr s.timer n) dt) } :=
    ⟨⟨t.both.inv.congr rfl rfl rfl rfl rfl rfl, t.both.inv2.congr rfl rfl rfl rfl⟩, t.sa.congr rfl rfl rfl⟩
  exact Triple.loopCore w w2 n hn _ t1 (fun x => checkSensors C x n cm)
    (fun s2 h2 => h2.checkSens w n hn cm)
    (fun s2 h2 hL => sensorCheck2 w n hn cm s2 h2 hL)
    (fun s2 h2 sa2 => sa2.checkSens w w2 h2 n hn cm)
    (fun a => (C.nets.getD n default).children.foldl (fun (s : St) m =>
        if gb s.cbOpen (C.nets.getD m default).cb then { s with pTimer := s.pTimer.set m (gr s.timer n) } else s) a)
    (fun a => childFold_fields C n _ a) (fun a => childFold_dOpen C n _ a)

theorem Triple.mgLoop {C : Cfg} {s : St} (w : WF C) (w2 : WF2 C) (t : Triple C s) (n : Nat) (hn : n < C.nets.length) (dt : ℚ) :
    Triple C (mgLoop C s n dt) := by
  unfold Relsad.Control.mgLoop
  simp only []
  have t1 : Triple C ({ s with timer := s.timer.set n (if gr s.pTimer n > tick (gr s.timer n) dt then gr s.pTimer n else tick (gr s.timer n) dt),
                               pTimer := s.pTimer.set n (tick (gr s.pTimer n) dt) } : St) :=
    ⟨⟨t.both.inv.congr rfl rfl rfl rfl rfl rfl, t.both.inv2.congr rfl rfl rfl rfl⟩, t.sa.congr rfl rfl rfl⟩
  exact Triple.loopCore w w2 n hn _ t1 (fun x => checkLinesManually C x n)
    (fun s2 h2 => by obtain ⟨i, a, _, _⟩ := h2.checkLines w n hn; exact ⟨i, a⟩)
    (fun s2 h2 hL => manualCheck2 w n hn s2 h2 hL)
    (fun s2 h2 sa2 => sa2.checkLines w w2 h2 n hn)
    (fun a => a) (fun a => ⟨rfl, rfl, rfl, rfl, rfl, rfl⟩) (fun _ => rfl)

theorem Triple.mgLoopA {C : Cfg} {s : St} (w : WF C) (w2 : WF2 C) (t : Triple C s) (n : Nat) (hn : n < C.nets.length) (dt : ℚ) (cm : Comm) :
    Triple C (mgLoopA C s n dt cm) := by
  unfold Relsad.Control.mgLoopA
  simp only []
  have t1 : Triple C ({ s with timer := s.timer.set n (if gr s.pTimer n > tick (gr s.timer n) dt then gr s.pTimer n else tick (gr s.timer n) dt),
                               pTimer := s.pTimer.set n (tick (gr s.pTimer n) dt) } : St) :=
    ⟨⟨t.both.inv.congr rfl rfl rfl rfl rfl rfl, t.both.inv2.congr rfl rfl rfl rfl⟩, t.sa.congr rfl rfl rfl⟩
  exact Triple.loopCore w w2 n hn _ t1 (fun x => checkSensors C x n cm)
    (fun s2 h2 => h2.checkSens w n hn cm)
    (fun s2 h2 hL => sensorCheck2 w n hn cm s2 h2 hL)
    (fun s2 h2 sa2 => sa2.checkSens w w2 h2 n hn cm)
    (fun a => a) (fun a => ⟨rfl, rfl, rfl, rfl, rfl, rfl⟩) (fun _ => rfl)

theorem triple_foldl {C : Cfg} {α : Type} (f : St → α → St) (l : List α) (P : α → Prop) (hP : ∀ a ∈ l, P a)
    (hf : ∀ s a, P a → Triple C s → Triple C (f s a)) (s : St) (h : Triple C s) : Triple C (l.foldl f s) := by
  induction l generalizing s with
  | nil => exact h
  | cons a as ih =>
    simp only [List.foldl_cons]
    exact ih (fun x hx => hP x (List.mem_cons_of_mem _ hx)) _ (hf s a (hP a List.mem_cons_self) h)

theorem lineUpdate_sw (C : Cfg) (s : St) (l : Nat) (dt : ℚ) :
    (lineUpdate C s l dt).dOpen = s.dOpen ∧ (lineUpdate C s l dt).cbOpen = s.cbOpen ∧ (lineUpdate C s l dt).conn = s.conn := by
  have nf : ∀ x : St, (lineNotFail C x l).dOpen = x.dOpen ∧ (lineNotFail C x l).cbOpen = x.cbOpen ∧ (lineNotFail C x l).conn = x.conn := by
    intro x; unfold lineNotFail; simp only; split_ifs <;> exact ⟨rfl, rfl, rfl⟩
  unfold lineUpdate
  simp only []
  split_ifs
  · exact nf _
  · exact ⟨rfl, rfl, rfl⟩
  · exact nf _

theorem Triple.lineUpdate {C : Cfg} {s : St} (w : WF C) (t : Triple C s) (l : Nat) (hl : l < C.lines.length) (dt : ℚ) :
    Triple C (lineUpdate C s l dt) := by
  obtain ⟨e1, e2, e3⟩ := lineUpdate_sw C s l dt
  exact ⟨⟨t.both.inv.lineUpdate l dt, t.both.inv2.afterUpdate w t.both.inv.sz l hl dt⟩, t.sa.congr e1 e2 e3⟩

theorem Triple.step {C : Cfg} {s : St} (w : WF C) (w2 : WF2 C) (t : Triple C s) (dt : ℚ) : Triple C (step C s dt) := by
  unfold Relsad.Control.step
  simp only []
  refine triple_foldl _ _ (fun n => n < C.nets.length) ?_ (fun s' n hn h' => h'.mgLoop w w2 n hn dt) _ ?_
  · intro n hn; exact List.mem_range.mp (List.mem_filter.mp hn).1
  refine triple_foldl _ _ (fun n => n < C.nets.length) ?_ (fun s' n hn h' => h'.distLoop w w2 n hn dt) _ ?_
  · intro n hn; exact List.mem_range.mp (List.mem_filter.mp hn).1
  exact triple_foldl _ _ (fun l => l < C.lines.length) (fun l hl => List.mem_range.mp hl)
    (fun s' l hl h' => h'.lineUpdate w l hl dt) _ t

theorem Triple.stepA {C : Cfg} {s : St} (w : WF C) (w2 : WF2 C) (t : Triple C s) (dt : ℚ) (cm : Comm) : Triple C (stepA C s dt cm) := by
  unfold Relsad.Control.stepA
  simp only []
  refine triple_foldl _ _ (fun n => n < C.nets.length) ?_ (fun s' n hn h' => h'.mgLoopA w w2 n hn dt cm) _ ?_
  · intro n hn; exact List.mem_range.mp (List.mem_filter.mp hn).1
  refine triple_foldl _ _ (fun n => n < C.nets.length) ?_ (fun s' n hn h' => h'.distLoopA w w2 n hn dt cm) _ ?_
  · intro n hn; exact List.mem_range.mp (List.mem_filter.mp hn).1
  exact triple_foldl _ _ (fun l => l < C.lines.length) (fun l hl => List.mem_range.mp hl)
    (fun s' l hl h' => h'.lineUpdate w l hl dt) _ t

theorem Triple.init {C : Cfg} (w : WF C) : Triple C (St.init C) := ⟨Both.init w, SA.init C⟩

theorem Triple.afterFail {C : Cfg} {s : St} (w : WF C) (t : Triple C s) (l : Nat) (hl : l < C.lines.length) (rep : ℚ) :
    Triple C (lineFail C s l rep) := ⟨t.both.afterFail w l hl rep, t.sa.afterFail w t.both.inv.sz.conn l hl rep⟩

end Relsad.Control
