/-
The automatic loops with devices that may be in trouble (`stepD`) extend the loops with healthy devices (`stepA`):
when no sensor needs time or is under repair, no intelligent switch is failed and no sensor has just come back from
repair, an increment of `stepD` is the increment of `stepA` — so everything proved about `stepA` is a statement about
`stepD` on the histories in which the devices themselves are healthy.
-/
import Relsad.Lemmas.ControlCalmL

namespace Relsad.Control

theorem set_gr_self (l : List ℚ) (n : Nat) : l.set n (gr l n) = l := by
  apply List.ext_getElem
  · simp
  · intro i h1 h2
    rw [List.getElem_set]
    split_ifs with h
    · subst h
      unfold gr
      rw [List.getD_eq_getElem?_getD, List.getElem?_eq_getElem h2]; rfl
    · rfl

/-- no device is in trouble -/
structure Healthy (cd : CommD) (swF : List Bool) : Prop where
  extra : ∀ l, gr cd.sensExtra l = 0
  repair : ∀ l, gb cd.sensRepair l = false
  recheck : ∀ n, gb cd.recheck n = false
  sw : ∀ d, gb swF d = false

theorem sensSum_healthy (C : Cfg) (cd : CommD) (swF : List Bool) (h : Healthy cd swF) (k : Nat) : sensSum C cd k = 0 := by
  unfold sensSum
  have key : ∀ (ls : List Nat) (a : ℚ), ls.foldl (fun a l => a + gr cd.sensExtra l) a = a := by
    intro ls
    induction ls with
    | nil => intro a; rfl
    | cons x xs ih => intro a; simp only [List.foldl_cons]; rw [h.extra x, add_zero]; exact ih a
  exact key _ 0

theorem reportedFail_healthy (C : Cfg) (s : St) (cd : CommD) (swF : List Bool) (h : Healthy cd swF) (k : Nat) :
    reportedFail C s cd k = anyFailed s (C.secs.getD k default).lines := by
  unfold reportedFail anyFailed
  congr 1
  funext l
  rw [h.repair l]; simp

theorem disconnectTimeD_healthy (C : Cfg) (cd : CommD) (swF : List Bool) (h : Healthy cd swF) (k : Nat) :
    disconnectTimeD C cd swF k = (disconnectTime C cd.cm k, swF) := by
  have key : ∀ (sws : List Sw), sws.foldl (swPoll C cd) ((0 : ℚ), swF) = ((0 : ℚ), swF) := by
    intro sws
    induction sws with
    | nil => rfl
    | cons a as ih =>
      simp only [List.foldl_cons]
      cases a with
      | discon d =>
        have : swPoll C cd ((0 : ℚ), swF) (.discon d) = ((0 : ℚ), swF) := by
          simp only [swPoll, h.sw d, Bool.and_false, Bool.false_eq_true, if_false]
        rw [this]; exact ih
      | breaker c => exact ih
  unfold disconnectTimeD disconnectTime
  simp only []
  rw [key]
  simp

theorem flagStepD_healthy (C : Cfg) (n : Nat) (cd : CommD) (swF : List Bool) (h : Healthy cd swF) (x : St) (k : Nat) :
    flagStepD C n cd (x, swF) k = (flagStepA C n cd.cm x k, swF) := by
  unfold flagStepD flagStepA
  simp only []
  rw [sensSum_healthy C cd swF h k, reportedFail_healthy C x cd swF h k, disconnectTimeD_healthy C cd swF h k]
  simp only [add_zero, set_gr_self]
  by_cases hf : anyFailed x (C.secs.getD k default).lines = true
  · simp only [hf, if_true]
  · simp only [hf]
    rfl

theorem recoStepD_healthy (C : Cfg) (n : Nat) (cd : CommD) (swF : List Bool) (h : Healthy cd swF) (x : St) (k : Nat) :
    recoStepD C n cd x k = recoStep C n x k := by
  unfold recoStepD recoStep
  simp only []
  rw [sensSum_healthy C cd swF h k, reportedFail_healthy C x cd swF h k]
  simp only [add_zero, set_gr_self]

theorem checkSensorsD_healthy (C : Cfg) (s : St) (n : Nat) (cd : CommD) (swF : List Bool) (h : Healthy cd swF) :
    checkSensorsD C s n cd swF = (checkSensors C s n cd.cm, swF) := by
  rw [checkSensors_eq]
  unfold checkSensorsD
  simp only []
  have k1 : ∀ (ks : List Nat) (x : St), ks.foldl (flagStepD C n cd) (x, swF) = (ks.foldl (flagStepA C n cd.cm) x, swF) := by
    intro ks
    induction ks with
    | nil => intro x; rfl
    | cons a as ih => intro x; simp only [List.foldl_cons]; rw [flagStepD_healthy C n cd swF h x a]; exact ih _
  have k2 : ∀ (ks : List Nat) (x : St), ks.foldl (recoStepD C n cd) x = ks.foldl (recoStep C n) x := by
    intro ks
    induction ks with
    | nil => intro x; rfl
    | cons a as ih => intro x; simp only [List.foldl_cons]; rw [recoStepD_healthy C n cd swF h x a]; exact ih _
  rw [k1, k2]
  rfl

theorem distLoopD_healthy (C : Cfg) (s : St) (n : Nat) (dt : ℚ) (cd : CommD) (swF : List Bool) (h : Healthy cd swF) :
    distLoopD C s n dt cd swF = (distLoopA C s n dt cd.cm, swF) := by
  unfold distLoopD distLoopA
  simp only [checkSensorsD_healthy C _ n cd swF h]
  split_ifs <;> rfl

theorem mgLoopD_healthy (C : Cfg) (s : St) (n : Nat) (dt : ℚ) (cd : CommD) (swF : List Bool) (h : Healthy cd swF) :
    mgLoopD C s n dt cd swF = (mgLoopA C s n dt cd.cm, swF) := by
  unfold mgLoopD mgLoopA
  simp only [checkSensorsD_healthy C _ n cd swF h]
  split_ifs <;> rfl

/-- **With every device healthy an increment of `stepD` is the increment of `stepA`.** -/
theorem stepD_healthy (C : Cfg) (s : St) (dt : ℚ) (cd : CommD) (swF : List Bool) (h : Healthy cd swF) :
    stepD C s dt cd swF = stepA C s dt cd.cm := by
  unfold stepD stepA
  simp only []
  have hck : ∀ (ns : List Nat) (c : List Bool), ns.foldl (fun c n => if gb cd.recheck n then c.set n true else c) c = c := by
    intro ns
    induction ns with
    | nil => intro c; rfl
    | cons a as ih => intro c; simp only [List.foldl_cons, h.recheck a, Bool.false_eq_true, if_false]; exact ih c
  rw [hck]
  have kd : ∀ (ns : List Nat) (x : St),
      ns.foldl (fun (acc : St × List Bool) n => distLoopD C acc.1 n dt cd acc.2) (x, swF) =
      (ns.foldl (fun s n => distLoopA C s n dt cd.cm) x, swF) := by
    intro ns
    induction ns with
    | nil => intro x; rfl
    | cons a as ih => intro x; simp only [List.foldl_cons]; rw [distLoopD_healthy C x a dt cd swF h]; exact ih _
  have km : ∀ (ns : List Nat) (x : St),
      ns.foldl (fun (acc : St × List Bool) n => mgLoopD C acc.1 n dt cd acc.2) (x, swF) =
      (ns.foldl (fun s n => mgLoopA C s n dt cd.cm) x, swF) := by
    intro ns
    induction ns with
    | nil => intro x; rfl
    | cons a as ih => intro x; simp only [List.foldl_cons]; rw [mgLoopD_healthy C x a dt cd swF h]; exact ih _
  rw [kd, km]

end Relsad.Control
