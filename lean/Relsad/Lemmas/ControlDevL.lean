/-
The automatic loops with devices that may be in trouble (`stepD`) extend the loops with healthy devices (`stepA`):
when no sensor needs time or is under repair, no intelligent switch is failed and no sensor has just come back from
repair, an increment of `stepD` is the increment of `stepA` — so everything proved about `stepA` is a statement about
`stepD` on the histories in which the devices themselves are healthy.
-/
import Relsad.Lemmas.ControlCalmL

namespace Relsad.Control

theorem set_gr_self (l : List ℚ) (n : Nat) : l.set n (gr l n) = l := by
  apply List.ext_getElem
  · simp
  · intro i h1 h2
    rw [List.getElem_set]
    split_ifs with h
    · subst h
      unfold gr
      rw [List.getD_eq_getElem?_getD, List.getElem?_eq_getElem h2]; rfl
    · rfl

/-- no device is in trouble -/
structure Healthy (cd : CommD) (swF : List Bool) : Prop where
  extra : ∀ l, gr cd.sensExtra l = 0
  repair : ∀ l, gb cd.sensRepair l = false
  recheck : ∀ n, gb cd.recheck n = false
  sw : ∀ d, gb swF d = false

theorem sensSum_healthy (C : Cfg) (cd : CommD) (swF : List Bool) (h : Healthy cd swF) (k : Nat) : sensSum C cd k = 0 := by
  unfold sensSum
  have key : ∀ (ls : List Nat) (a : ℚ), ls.foldl (fun a l => a + gr cd.sensExtra l) a = a := by
    intro ls
    induction ls with
    | nil => intro a; rfl
    | cons x xs ih => intro a; simp only [List.foldl_cons]; rw [h.extra x, add_zero]; exact ih a
  exact key _ 0

theorem reportedFail_healthy (C : Cfg) (s : St) (cd : CommD) (swF : List Bool) (h : Healthy cd swF) (k : Nat) :
    reportedFail C s cd k = anyFailed s (C.secs.getD k default).lines := by
  unfold reportedFail anyFailed
  congr 1
  funext l
  rw [h.repair l]; simp

theorem disconnectTimeD_healthy (C : Cfg) (cd : CommD) (swF : List Bool) (h : Healthy cd swF) (k : Nat) :
    disconnectTimeD C cd swF k = (disconnectTime C cd.cm k, swF) := by
  have key : ∀ (sws : List Sw), sws.foldl (swPoll C cd) ((0 : ℚ), swF) = ((0 : ℚ), swF) := by
    intro sws
    induction sws with
    | nil => rfl
    | cons a as ih =>
      simp only [List.foldl_cons]
      cases a with
      | discon d =>
        have : swPoll C cd ((0 : ℚ), swF) (.discon d) = ((0 : ℚ), swF) := by
          simp only [swPoll, h.sw d, Bool.and_false, Bool.false_eq_true, if_false]
        rw [this]; exact ih
      | breaker c => exact ih
  unfold disconnectTimeD disconnectTime
  simp only []
  rw [key]
  simp

theorem flagStepD_healthy (C : Cfg) (n : Nat) (cd : CommD) (swF : List Bool) (h : Healthy cd swF) (x : St) (k : Nat) :
    flagStepD C n cd (x, swF) k = (flagStepA C n cd.cm x k, swF) := by
  unfold flagStepD flagStepA
  simp only []
  rw [sensSum_healthy C cd swF h k, reportedFail_healthy C x cd swF h k, disconnectTimeD_healthy C cd swF h k]
  simp only [add_zero, set_gr_self]
  by_cases hf : anyFailed x (C.secs.getD k default).lines = true
  · simp only [hf, if_true]
  · simp only [hf]
    rfl

theorem recoStepD_healthy (C : Cfg) (n : Nat) (cd : CommD) (swF : List Bool) (h : Healthy cd swF) (x : St) (k : Nat) :
    recoStepD C n cd x k = recoStep C n x k := by
  unfold recoStepD recoStep
  simp only []
  rw [sensSum_healthy C cd swF h k, reportedFail_healthy C x cd swF h k]
  simp only [add_zero, set_gr_self]

theorem checkSensorsD_healthy (C : Cfg) (s : St) (n : Nat) (cd : CommD) (swF : List Bool) (h : Healthy cd swF) :
    checkSensorsD C s n cd swF = (checkSensors C s n cd.cm, swF) := by
  rw [checkSensors_eq]
  unfold checkSensorsD
  simp only []
  have k1 : ∀ (ks : List Nat) (x : St), ks.foldl (flagStepD C n cd) (x, swF) = (ks.foldl (flagStepA C n cd.cm) x, swF) := by
    intro ks
    induction ks with
    | nil => intro x; rfl
    | cons a as ih => intro x; simp only [List.foldl_cons]; rw [flagStepD_healthy C n cd swF h x a]; exact ih _
  have k2 : ∀ (ks : List Nat) (x : St), ks.foldl (recoStepD C n cd) x = ks.foldl (recoStep C n) x := by
    intro ks
    induction ks with
    | nil => intro x; rfl
    | cons a as ih => intro x; simp only [List.foldl_cons]; rw [recoStepD_healthy C n cd swF h x a]; exact ih _
  rw [k1, k2]
  rfl

theorem distLoopD_healthy (C : Cfg) (s : St) (n : Nat) (dt : ℚ) (cd : CommD) (swF : List Bool) (h : Healthy cd swF) :
    distLoopD C s n dt cd swF = (distLoopA C s n dt cd.cm, swF) := by
  unfold distLoopD distLoopA
  simp only [checkSensorsD_healthy C _ n cd swF h]
  split_ifs <;> rfl

theorem mgLoopD_healthy (C : Cfg) (s : St) (n : Nat) (dt : ℚ) (cd : CommD) (swF : List Bool) (h : Healthy cd swF) :
    mgLoopD C s n dt cd swF = (mgLoopA C s n dt cd.cm, swF) := by
  unfold mgLoopD mgLoopA
  simp only [checkSensorsD_healthy C _ n cd swF h]
  split_ifs <;> rfl

/-- **With every device healthy an increment of `stepD` is the increment of `stepA`.** -/
theorem stepD_healthy (C : Cfg) (s : St) (dt : ℚ) (cd : CommD) (swF : List Bool) (h : Healthy cd swF) :
    stepD C s dt cd swF = stepA C s dt cd.cm := by
  unfold stepD stepA
  simp only []
  have hck : ∀ (ns : List Nat) (c : List Bool), ns.foldl (fun c n => if gb cd.recheck n then c.set n true else c) c = c := by
    intro ns
    induction ns with
    | nil => intro c; rfl
    | cons a as ih => intro c; simp only [List.foldl_cons, h.recheck a, Bool.false_eq_true, if_false]; exact ih c
  rw [hck]
  have kd : ∀ (ns : List Nat) (x : St),
      ns.foldl (fun (acc : St × List Bool) n => distLoopD C acc.1 n dt cd acc.2) (x, swF) =
      (ns.foldl (fun s n => distLoopA C s n dt cd.cm) x, swF) := by
    intro ns
    induction ns with
    | nil => intro x; rfl
    | cons a as ih => intro x; simp only [List.foldl_cons]; rw [distLoopD_healthy C x a dt cd swF h]; exact ih _
  have km : ∀ (ns : List Nat) (x : St),
      ns.foldl (fun (acc : St × List Bool) n => mgLoopD C acc.1 n dt cd acc.2) (x, swF) =
      (ns.foldl (fun s n => mgLoopA C s n dt cd.cm) x, swF) := by
    intro ns
    induction ns with
    | nil => intro x; rfl
    | cons a as ih => intro x; simp only [List.foldl_cons]; rw [mgLoopD_healthy C x a dt cd swF h]; exact ih _
  rw [kd, km]

/-- the distribution controller's loop with an arbitrary component check -/
def distLoopA' (C : Cfg) (s : St) (n : Nat) (dt : ℚ) (chk : St → St) : St :=
  let nc := C.nets.getD n default
  let s1 := { s with timer := s.timer.set n (tick (gr s.timer n) dt) }
  let s2 := if gb s1.cbOpen nc.cb && gr s1.timer n ≤ 0 then { s1 with check := s1.check.set n true } else s1
  let s3 := if gb s2.check n then
      let a := chk s2
      let b := nc.children.foldl (fun s m =>
        if gb s.cbOpen (C.nets.getD m default).cb then { s with pTimer := s.pTimer.set m (gr s.timer n) } else s) a
      { b with check := b.check.set n false }
    else s2
  checkBreakerManually C s3 n

/-- the microgrid controller's loop with an arbitrary component check -/
def mgLoopA' (C : Cfg) (s : St) (n : Nat) (dt : ℚ) (chk : St → St) : St :=
  let nc := C.nets.getD n default
  let t1 := tick (gr s.timer n) dt
  let t2 := if gr s.pTimer n > t1 then gr s.pTimer n else t1
  let s1 := { s with timer := s.timer.set n t2, pTimer := s.pTimer.set n (tick (gr s.pTimer n) dt) }
  let s2 := if gb s1.cbOpen nc.cb && gr s1.timer n ≤ 0 then { s1 with check := s1.check.set n true } else s1
  let s3 := if gb s2.check n then
      let a := chk s2
      { a with check := a.check.set n false }
    else s2
  checkBreakerManually C s3 n

/-! ### the first invariant (no failed line in service behind a closed breaker) with devices in trouble -/

theorem reported_of_failed (C : Cfg) (s : St) (cd : CommD) (k : Nat)
    (h : anyFailed s (C.secs.getD k default).lines = true) : reportedFail C s cd k = true := by
  unfold anyFailed at h
  unfold reportedFail
  rw [List.any_eq_true] at h ⊢
  obtain ⟨l, hl, hf⟩ := h
  exact ⟨l, hl, by rw [hf]; rfl⟩

theorem flagStepD_spec {C : Cfg} (w : WF C) (n : Nat) (hn : n < C.nets.length) (cd : CommD) (acc : St × List Bool) (h : Inv C acc.1) (k : Nat)
    (hk : k ∈ (netOf C n).secs) :
    Inv C (flagStepD C n cd acc k).1 ∧ (flagStepD C n cd acc k).1.failed = acc.1.failed ∧ (flagStepD C n cd acc k).1.conn = acc.1.conn ∧
    (flagStepD C n cd acc k).1.cbOpen = acc.1.cbOpen ∧
    (flagStepD C n cd acc k).1.secConn = (if reportedFail C acc.1 cd k then acc.1.secConn.set k false else acc.1.secConn) := by
  obtain ⟨s, swF⟩ := acc
  simp only at h ⊢
  unfold flagStepD
  simp only []
  by_cases hf : reportedFail C s cd k = true
  · rw [if_pos hf, if_pos hf]
    have hflen : n < s.failedSecs.length := by rw [h.sz.failedSecs]; exact hn
    have h1 : Inv C { s with failedSecs := s.failedSecs.set n (addUnique (s.failedSecs.getD n []) k) } := h.addFailed n k hn hk
    have hin : k ∈ ({ s with failedSecs := s.failedSecs.set n (addUnique (s.failedSecs.getD n []) k) } : St).failedSecs.getD n [] := by
      show k ∈ (s.failedSecs.set n _).getD n []
      rw [getD_set_self _ _ _ _ hflen]
      unfold addUnique; split_ifs with hc
      · simpa using hc
      · simp
    have h2 := Inv.flag w h1 n k hn hk hin
    have rf := remFold_fields (disconnectTimeD C cd swF k).1 (C.secs.getD k default).lines
      { s with secConn := s.secConn.set k false, failedSecs := s.failedSecs.set n (addUnique (s.failedSecs.getD n []) k),
               timer := (s.timer.set n (gr s.timer n + sensSum C cd k)).set n
                 (gr (s.timer.set n (gr s.timer n + sensSum C cd k)) n + ((if needSens C cd.cm k then C.T else 0) + (disconnectTimeD C cd swF k).1)) }
    simp only at rf
    obtain ⟨r1, r2, r3, r4, r5, r6⟩ := rf
    refine ⟨?_, r2, r1, r3, r4⟩
    exact h2.congr r1 r2 r3 r4 r5 (by rw [r6])
  · rw [if_neg hf, if_neg hf]
    exact ⟨h.congr rfl rfl rfl rfl rfl rfl, rfl, rfl, rfl, rfl⟩

theorem flagAllD {C : Cfg} (w : WF C) (n : Nat) (hn : n < C.nets.length) (cd : CommD) (ks : List Nat) (acc : St × List Bool) (h : Inv C acc.1)
    (hks : ∀ k ∈ ks, k ∈ (netOf C n).secs) : FlagAll C ks acc.1 (ks.foldl (flagStepD C n cd) acc).1 := by
  induction ks generalizing acc with
  | nil => exact ⟨h, rfl, rfl, rfl, fun _ hj => hj, fun k hk => by cases hk⟩
  | cons a as ih =>
    simp only [List.foldl_cons]
    have ha := hks a List.mem_cons_self
    obtain ⟨i1, f1, c1, b1, sc1⟩ := flagStepD_spec w n hn cd acc h a ha
    have r := ih (flagStepD C n cd acc a) i1 (fun k hk => hks k (List.mem_cons_of_mem _ hk))
    have mono1 : ∀ j, gb (flagStepD C n cd acc a).1.secConn j = true → gb acc.1.secConn j = true := by
      intro j hj; rw [sc1] at hj
      split_ifs at hj
      · exact (gb_set_true_imp _ _ _ hj).1
      · exact hj
    have nf_eq : ∀ k, NoFailedIn C (flagStepD C n cd acc a).1 k ↔ NoFailedIn C acc.1 k := by
      intro k; unfold NoFailedIn; rw [f1]
    refine ⟨r.inv, r.failed.trans f1, r.conn.trans c1, r.cbOpen.trans b1, fun j hj => mono1 j (r.secMono j hj), ?_⟩
    intro k hk hsc
    rcases List.mem_cons.mp hk with rfl | hk'
    · have h1 := r.secMono k hsc
      rw [sc1] at h1
      by_cases hf : reportedFail C acc.1 cd k = true
      · rw [if_pos hf] at h1
        have hklt : k < acc.1.secConn.length := by rw [h.sz.secConn]; exact w.sec_lt n hn k ha
        rw [gb_set_self _ _ _ hklt] at h1; exact absurd h1 (by simp)
      · apply (anyFailed_false_iff C acc.1 k).mp
        cases hx : anyFailed acc.1 (secOf C k).lines
        · rfl
        · exact absurd (reported_of_failed C acc.1 cd k hx) hf
    · exact (nf_eq k).mp (r.clear k hk' hsc)

theorem recoStepD_spec {C : Cfg} (w : WF C) (n : Nat) (hn : n < C.nets.length) (cd : CommD) (s : St) (h : Inv C s) (hA : AllClear C s n)
    (k : Nat) (hk : k ∈ (netOf C n).secs) :
    Inv C (recoStepD C n cd s k) ∧ AllClear C (recoStepD C n cd s k) n ∧ (recoStepD C n cd s k).failed = s.failed ∧
    (recoStepD C n cd s k).cbOpen = s.cbOpen := by
  set s0 : St := { s with timer := s.timer.set n (gr s.timer n + sensSum C cd k) } with hs0
  have h0 : Inv C s0 := h.congr rfl rfl rfl rfl rfl rfl
  have a0 : AllClear C s0 n := hA.congr rfl rfl
  by_cases hf : reportedFail C s cd k = true
  · have : recoStepD C n cd s k = s0 := by unfold recoStepD; simp only []; rw [if_pos hf]
    rw [this]; exact ⟨h0, a0, rfl, rfl⟩
  · have hnf : anyFailed s0 (C.secs.getD k default).lines = false := by
      cases hx : anyFailed s0 (C.secs.getD k default).lines
      · rfl
      · exact absurd (reported_of_failed C s cd k hx) hf
    have : recoStepD C n cd s k = recoStep C n s0 k := by
      unfold recoStepD recoStep
      simp only []
      rw [if_neg hf, hnf]
      simp only [Bool.false_eq_true, if_false]
      rfl
    rw [this]
    exact recoStep_spec w n hn s0 h0 a0 k hk

theorem recoAllD {C : Cfg} (w : WF C) (n : Nat) (hn : n < C.nets.length) (cd : CommD) (ks : List Nat) (s : St) (h : Inv C s)
    (hA : AllClear C s n) (hks : ∀ k ∈ ks, k ∈ (netOf C n).secs) :
    Inv C (ks.foldl (recoStepD C n cd) s) ∧ AllClear C (ks.foldl (recoStepD C n cd) s) n := by
  induction ks generalizing s with
  | nil => exact ⟨h, hA⟩
  | cons a as ih =>
    simp only [List.foldl_cons]
    obtain ⟨i1, a1, _, _⟩ := recoStepD_spec w n hn cd s h hA a (hks a List.mem_cons_self)
    exact ih (recoStepD C n cd s a) i1 a1 (fun k hk => hks k (List.mem_cons_of_mem _ hk))

/-- the sensor check with devices in trouble keeps the invariant and leaves every in-service section free of failed lines -/
theorem Inv.checkSensD {C : Cfg} {s : St} (w : WF C) (h : Inv C s) (n : Nat) (hn : n < C.nets.length) (cd : CommD) (swF : List Bool) :
    Inv C (checkSensorsD C s n cd swF).1 ∧ AllClear C (checkSensorsD C s n cd swF).1 n := by
  unfold checkSensorsD
  simp only []
  have fa := flagAllD w n hn cd ((netOf C n).secs.filter (fun k => gb s.secConn k)) (s, swF) h (fun k hk => (List.mem_filter.mp hk).1)
  have hA : AllClear C (((netOf C n).secs.filter (fun k => gb s.secConn k)).foldl (flagStepD C n cd) (s, swF)).1 n := by
    intro k hk hsc l hl
    rw [fa.failed]
    have hs := fa.secMono k hsc
    exact fa.clear k (List.mem_filter.mpr ⟨hk, hs⟩) hsc l hl
  exact recoAllD w n hn cd ((netOf C n).secs.filter (fun k => !gb s.secConn k)) _ fa.inv hA (fun k hk => (List.mem_filter.mp hk).1)

theorem distLoopD_fst (C : Cfg) (s : St) (n : Nat) (dt : ℚ) (cd : CommD) (swF : List Bool) :
    (distLoopD C s n dt cd swF).1 =
      distLoopA' C s n dt (fun x => (checkSensorsD C x n cd swF).1) := by
  unfold distLoopD distLoopA'
  simp only []
  split_ifs <;> rfl

theorem mgLoopD_fst (C : Cfg) (s : St) (n : Nat) (dt : ℚ) (cd : CommD) (swF : List Bool) :
    (mgLoopD C s n dt cd swF).1 =
      mgLoopA' C s n dt (fun x => (checkSensorsD C x n cd swF).1) := by
  unfold mgLoopD mgLoopA'
  simp only []
  split_ifs <;> rfl

theorem Inv.distLoopA' {C : Cfg} {s : St} (w : WF C) (h : Inv C s) (n : Nat) (hn : n < C.nets.length) (dt : ℚ) (chk : St → St)
    (hchk : ∀ s2, Inv C s2 → Inv C (chk s2) ∧ AllClear C (chk s2) n) : Inv C (distLoopA' C s n dt chk) := by
  unfold Relsad.Control.distLoopA'
  simp only []
  have h1 : Inv C { s with timer := s.timer.set n (tick (gr s.timer n) dt) } := h.congr rfl rfl rfl rfl rfl rfl
  set s1 : St := { s with timer := s.timer.set n (tick (gr s.timer n) dt) } with hs1
  have := Inv.loopCoreG w n hn s1 h1 chk hchk
    (fun a => let b := (C.nets.getD n default).children.foldl (fun (s : St) m =>
        if gb s.cbOpen (C.nets.getD m default).cb then { s with pTimer := s.pTimer.set m (gr s.timer n) } else s) a
      { b with check := b.check.set n false })
    (by
      intro a
      simp only []
      obtain ⟨k1, k2, k3, k4, k5, k6⟩ := childFold_fields C n (C.nets.getD n default).children a
      refine ⟨k1, k2, k3, k4, k5, ?_⟩
      show (List.set _ n false).length = a.check.length
      rw [List.length_set, k6])
  exact this

theorem Inv.mgLoopA' {C : Cfg} {s : St} (w : WF C) (h : Inv C s) (n : Nat) (hn : n < C.nets.length) (dt : ℚ) (chk : St → St)
    (hchk : ∀ s2, Inv C s2 → Inv C (chk s2) ∧ AllClear C (chk s2) n) : Inv C (mgLoopA' C s n dt chk) := by
  unfold Relsad.Control.mgLoopA'
  simp only []
  set s1 : St := { s with timer := s.timer.set n (if gr s.pTimer n > tick (gr s.timer n) dt then gr s.pTimer n else tick (gr s.timer n) dt),
                          pTimer := s.pTimer.set n (tick (gr s.pTimer n) dt) } with hs1
  have h1 : Inv C s1 := h.congr rfl rfl rfl rfl rfl rfl
  have := Inv.loopCoreG w n hn s1 h1 chk hchk
    (fun a => { a with check := a.check.set n false })
    (by intro a; exact ⟨rfl, rfl, rfl, rfl, rfl, by simp⟩)
  exact this

theorem inv_foldl_pair {C : Cfg} (f : St × List Bool → Nat → St × List Bool) (ns : List Nat) (P : Nat → Prop) (hP : ∀ n ∈ ns, P n)
    (hf : ∀ acc n, P n → Inv C acc.1 → Inv C (f acc n).1) (acc : St × List Bool) (h : Inv C acc.1) : Inv C (ns.foldl f acc).1 := by
  induction ns generalizing acc with
  | nil => exact h
  | cons a as ih =>
    simp only [List.foldl_cons]
    exact ih (fun x hx => hP x (List.mem_cons_of_mem _ hx)) _ (hf acc a (hP a List.mem_cons_self) h)

/-- **The isolation invariant survives devices in trouble**: whatever the sensors answer (time needed, false alarms of
sensors under repair), whichever intelligent switches are failed and whatever can be reached, an increment of the
device-aware loops keeps "no failed line is in service behind a closed breaker" (with its auxiliary clauses). -/
theorem Inv.afterStepD {C : Cfg} {s : St} (w : WF C) (h : Inv C s) (dt : ℚ) (cd : CommD) (swF : List Bool) : Inv C (stepD C s dt cd swF) := by
  unfold Relsad.Control.stepD
  simp only []
  have h0 : Inv C ((List.range C.lines.length).foldl (fun s l => Relsad.Control.lineUpdate C s l dt) s) :=
    inv_foldl _ _ (fun _ => True) (fun _ _ => trivial) (fun s' l _ h' => h'.lineUpdate l dt) _ h
  set s0 := (List.range C.lines.length).foldl (fun s l => Relsad.Control.lineUpdate C s l dt) s with hs0
  have h1 : Inv C ({ s0 with check := (List.range C.nets.length).foldl (fun c n => if gb cd.recheck n then c.set n true else c) s0.check } : St) := by
    refine h0.congr rfl rfl rfl rfl rfl ?_
    have key : ∀ (ns : List Nat) (c : List Bool), (ns.foldl (fun c n => if gb cd.recheck n then c.set n true else c) c).length = c.length := by
      intro ns
      induction ns with
      | nil => intro c; rfl
      | cons a as ih => intro c; simp only [List.foldl_cons]; rw [ih]; split_ifs <;> simp
    exact key _ _
  refine inv_foldl_pair _ _ (fun n => n < C.nets.length) ?_ ?_ _ ?_
  · intro n hn; exact List.mem_range.mp (List.mem_filter.mp hn).1
  · intro acc n hn ha
    rw [mgLoopD_fst]
    exact ha.mgLoopA' w n hn dt _ (fun s2 h2 => h2.checkSensD w n hn cd acc.2)
  refine inv_foldl_pair _ _ (fun n => n < C.nets.length) ?_ ?_ _ h1
  · intro n hn; exact List.mem_range.mp (List.mem_filter.mp hn).1
  · intro acc n hn ha
    rw [distLoopD_fst]
    exact ha.distLoopA' w n hn dt _ (fun s2 h2 => h2.checkSensD w n hn cd acc.2)

/-! ### switch positions agree with lines, and nothing is out without a reason, with devices in trouble -/

/-- the three invariants that survive false alarms (the second one, "a section is out only while it holds a failed
line", does not: a sensor under repair keeps its section out) -/
structure Trio (C : Cfg) (s : St) : Prop where
  inv : Inv C s
  sa : SA C s
  g : G C s

theorem remFold_conn_etc (T : ℚ) (ls : List Nat) (x : St) :
    (ls.foldl (fun (s : St) l => { s with rem := s.rem.set l (gr s.rem l + T) }) x).dOpen = x.dOpen := remFold_dOpen T ls x

theorem flagStepD_sw (C : Cfg) (n : Nat) (cd : CommD) (acc : St × List Bool) (k : Nat) :
    (flagStepD C n cd acc k).1.dOpen = acc.1.dOpen ∧ (flagStepD C n cd acc k).1.cbOpen = acc.1.cbOpen ∧ (flagStepD C n cd acc k).1.conn = acc.1.conn := by
  unfold flagStepD
  simp only []
  by_cases hf : reportedFail C acc.1 cd k = true
  · rw [if_pos hf]
    exact ⟨remFold_dOpen _ _ _, (remFold_fields _ _ _).2.2.1, (remFold_fields _ _ _).1⟩
  · rw [if_neg hf]; exact ⟨rfl, rfl, rfl⟩

theorem flagStepD_secDown (C : Cfg) (n : Nat) (cd : CommD) (acc : St × List Bool) (k : Nat) (j : Nat)
    (hj : gb acc.1.secConn j = false) : gb (flagStepD C n cd acc k).1.secConn j = false := by
  unfold flagStepD
  simp only []
  by_cases hf : reportedFail C acc.1 cd k = true
  · rw [if_pos hf, (remFold_fields _ _ _).2.2.2.1]
    show gb (acc.1.secConn.set k false) j = false
    rw [gb_set]; split_ifs
    · rfl
    · exact hj
  · rw [if_neg hf]; exact hj

theorem trio_flagAllD {C : Cfg} (w : WF C) (n : Nat) (hn : n < C.nets.length) (cd : CommD) (ks : List Nat) (acc : St × List Bool)
    (sa : SA C acc.1) (g : G C acc.1) : SA C (ks.foldl (flagStepD C n cd) acc).1 ∧ G C (ks.foldl (flagStepD C n cd) acc).1 := by
  induction ks generalizing acc with
  | nil => exact ⟨sa, g⟩
  | cons a as ih =>
    simp only [List.foldl_cons]
    obtain ⟨e1, e2, e3⟩ := flagStepD_sw C n cd acc a
    refine ih (flagStepD C n cd acc a) (sa.congr e1 e2 e3) ?_
    exact g.of_opensG ⟨⟨fun i h => by rw [e3] at h; exact h, fun d h => by rw [e1]; exact h, fun c h => by rw [e2]; exact h⟩, by rw [e1],
      fun j hj => flagStepD_secDown C n cd acc a j hj,
      fun l _ h => Or.inl (by rw [e3] at h; exact h), fun d _ h => Or.inl (by rw [e1] at h; exact h)⟩

theorem trio_recoAllD {C : Cfg} (w : WF C) (w2 : WF2 C) (n : Nat) (hn : n < C.nets.length) (cd : CommD) (ks : List Nat) (s : St) (h : Inv C s)
    (hA : AllClear C s n) (sa : SA C s) (g : G C s) (hks : ∀ k ∈ ks, k ∈ (netOf C n).secs) :
    SA C (ks.foldl (recoStepD C n cd) s) ∧ G C (ks.foldl (recoStepD C n cd) s) := by
  induction ks generalizing s with
  | nil => exact ⟨sa, g⟩
  | cons a as ih =>
    simp only [List.foldl_cons]
    have ha := hks a List.mem_cons_self
    obtain ⟨i1, a1, _, _⟩ := recoStepD_spec w n hn cd s h hA a ha
    set s0 : St := { s with timer := s.timer.set n (gr s.timer n + sensSum C cd a) } with hs0
    have h0 : Inv C s0 := h.congr rfl rfl rfl rfl rfl rfl
    have sa0 : SA C s0 := sa.congr rfl rfl rfl
    have g0 : G C s0 := g.congr rfl rfl rfl rfl
    have both : SA C (recoStepD C n cd s a) ∧ G C (recoStepD C n cd s a) := by
      unfold recoStepD
      simp only []
      split_ifs
      · exact ⟨sa0, g0⟩
      · exact ⟨(sa0.reconnect w w2 h0.sz n hn a ha).congr rfl rfl rfl, (g0.reconnect w w2 h0.sz n hn a ha).congr rfl rfl rfl rfl⟩
    exact ih (recoStepD C n cd s a) i1 a1 both.1 both.2 (fun k hk => hks k (List.mem_cons_of_mem _ hk))

theorem Trio.checkSensD {C : Cfg} {s : St} (w : WF C) (w2 : WF2 C) (t : Trio C s) (n : Nat) (hn : n < C.nets.length) (cd : CommD) (swF : List Bool) :
    SA C (checkSensorsD C s n cd swF).1 ∧ G C (checkSensorsD C s n cd swF).1 := by
  unfold checkSensorsD
  simp only []
  have fa := flagAllD w n hn cd ((netOf C n).secs.filter (fun k => gb s.secConn k)) (s, swF) t.inv (fun k hk => (List.mem_filter.mp hk).1)
  obtain ⟨sa1, g1⟩ := trio_flagAllD w n hn cd ((netOf C n).secs.filter (fun k => gb s.secConn k)) (s, swF) t.sa t.g
  have hA : AllClear C (((netOf C n).secs.filter (fun k => gb s.secConn k)).foldl (flagStepD C n cd) (s, swF)).1 n := by
    intro k hk hsc l hl
    rw [fa.failed]
    have hs := fa.secMono k hsc
    exact fa.clear k (List.mem_filter.mpr ⟨hk, hs⟩) hsc l hl
  exact trio_recoAllD w w2 n hn cd ((netOf C n).secs.filter (fun k => !gb s.secConn k)) _ fa.inv hA sa1 g1 (fun k hk => (List.mem_filter.mp hk).1)

/-- the shared tail of a control loop for the three invariants, any component check -/
theorem Trio.loopTail {C : Cfg} (w : WF C) (w2 : WF2 C) (n : Nat) (hn : n < C.nets.length) (s1 : St) (t1 : Trio C s1) (chk : St → St)
    (hchk : ∀ s2, Trio C s2 → (Inv C (chk s2) ∧ AllClear C (chk s2) n) ∧ SA C (chk s2) ∧ G C (chk s2))
    (g : St → St)
    (hg : ∀ a, (g a).conn = a.conn ∧ (g a).failed = a.failed ∧ (g a).cbOpen = a.cbOpen ∧ (g a).secConn = a.secConn ∧
      (g a).failedSecs = a.failedSecs ∧ (g a).check = a.check)
    (hgd : ∀ a, (g a).dOpen = a.dOpen) :
    Trio C (checkBreakerManually C
      (if gb (if gb s1.cbOpen (C.nets.getD n default).cb && decide (gr s1.timer n ≤ 0) then { s1 with check := s1.check.set n true } else s1).check n
       then { g (chk (if gb s1.cbOpen (C.nets.getD n default).cb && decide (gr s1.timer n ≤ 0) then { s1 with check := s1.check.set n true } else s1)) with
              check := (g (chk (if gb s1.cbOpen (C.nets.getD n default).cb && decide (gr s1.timer n ≤ 0) then { s1 with check := s1.check.set n true } else s1))).check.set n false }
       else (if gb s1.cbOpen (C.nets.getD n default).cb && decide (gr s1.timer n ≤ 0) then { s1 with check := s1.check.set n true } else s1)) n) := by
  set s2 : St := (if gb s1.cbOpen (C.nets.getD n default).cb && decide (gr s1.timer n ≤ 0) then { s1 with check := s1.check.set n true } else s1) with hs2
  have t2 : Trio C s2 := by
    rw [hs2]; split_ifs
    · exact ⟨t1.inv.congr rfl rfl rfl rfl rfl (by simp), t1.sa.congr rfl rfl rfl, t1.g.congr rfl rfl rfl rfl⟩
    · exact t1
  have hcb2 : s2.cbOpen = s1.cbOpen := by rw [hs2]; split_ifs <;> rfl
  have ht2 : s2.timer = s1.timer := by rw [hs2]; split_ifs <;> rfl
  by_cases hck : gb s2.check n = true
  · rw [if_pos hck]
    obtain ⟨⟨i3, a3⟩, sa3, g3⟩ := hchk s2 t2
    obtain ⟨g1, g2, g3', g4, g5, g6⟩ := hg (chk s2)
    have i4 : Inv C { g (chk s2) with check := (g (chk s2)).check.set n false } := i3.congr g1 g2 g3' g4 g5 (by simp [g6])
    have sa4 : SA C { g (chk s2) with check := (g (chk s2)).check.set n false } := sa3.congr (hgd _) g3' g1
    have gg4 : G C { g (chk s2) with check := (g (chk s2)).check.set n false } := g3.congr g1 (hgd _) g3' g4
    exact ⟨i4.checkBreaker w n hn (fun _ _ => a3.congr g4 g2), sa4.checkBreaker w w2 i4 n hn, gg4.checkBreaker w w2 i4 n hn⟩
  · rw [if_neg hck]
    refine ⟨t2.inv.checkBreaker w n hn ?_, t2.sa.checkBreaker w w2 t2.inv n hn, t2.g.checkBreaker w w2 t2.inv n hn⟩
    intro hopen htimer
    exfalso; apply hck
    have hcond : (gb s1.cbOpen (C.nets.getD n default).cb && decide (gr s1.timer n ≤ 0)) = true := by
      rw [hcb2] at hopen; rw [ht2] at htimer
      simp only [Bool.and_eq_true, decide_eq_true_eq]
      exact ⟨hopen, htimer⟩
    rw [hs2, if_pos hcond]
    show gb (s1.check.set n true) n = true
    exact gb_set_self _ _ _ (by rw [t1.inv.sz.check]; exact hn)

theorem Trio.distLoopA' {C : Cfg} {s : St} (w : WF C) (w2 : WF2 C) (t : Trio C s) (n : Nat) (hn : n < C.nets.length) (dt : ℚ) (chk : St → St)
    (hchk : ∀ s2, Trio C s2 → (Inv C (chk s2) ∧ AllClear C (chk s2) n) ∧ SA C (chk s2) ∧ G C (chk s2)) : Trio C (distLoopA' C s n dt chk) := by
  unfold Relsad.Control.distLoopA'
  simp only []
  have t1 : Trio C { s with timer := s.timer.set n (tick (gr s.timer n) dt) } :=
    ⟨t.inv.congr rfl rfl rfl rfl rfl rfl, t.sa.congr rfl rfl rfl, t.g.congr rfl rfl rfl rfl⟩
  exact Trio.loopTail w w2 n hn _ t1 chk hchk
    (fun a => (C.nets.getD n default).children.foldl (fun (s : St) m =>
        if gb s.cbOpen (C.nets.getD m default).cb then { s with pTimer := s.pTimer.set m (gr s.timer n) } else s) a)
    (fun a => childFold_fields C n _ a) (fun a => childFold_dOpen C n _ a)

theorem Trio.mgLoopA' {C : Cfg} {s : St} (w : WF C) (w2 : WF2 C) (t : Trio C s) (n : Nat) (hn : n < C.nets.length) (dt : ℚ) (chk : St → St)
    (hchk : ∀ s2, Trio C s2 → (Inv C (chk s2) ∧ AllClear C (chk s2) n) ∧ SA C (chk s2) ∧ G C (chk s2)) : Trio C (mgLoopA' C s n dt chk) := by
  unfold Relsad.Control.mgLoopA'
  simp only []
  have t1 : Trio C ({ s with timer := s.timer.set n (if gr s.pTimer n > tick (gr s.timer n) dt then gr s.pTimer n else tick (gr s.timer n) dt),
                             pTimer := s.pTimer.set n (tick (gr s.pTimer n) dt) } : St) :=
    ⟨t.inv.congr rfl rfl rfl rfl rfl rfl, t.sa.congr rfl rfl rfl, t.g.congr rfl rfl rfl rfl⟩
  exact Trio.loopTail w w2 n hn _ t1 chk hchk (fun a => a) (fun a => ⟨rfl, rfl, rfl, rfl, rfl, rfl⟩) (fun _ => rfl)

theorem trio_foldl_pair {C : Cfg} (f : St × List Bool → Nat → St × List Bool) (ns : List Nat) (P : Nat → Prop) (hP : ∀ n ∈ ns, P n)
    (hf : ∀ acc n, P n → Trio C acc.1 → Trio C (f acc n).1) (acc : St × List Bool) (h : Trio C acc.1) : Trio C (ns.foldl f acc).1 := by
  induction ns generalizing acc with
  | nil => exact h
  | cons a as ih =>
    simp only [List.foldl_cons]
    exact ih (fun x hx => hP x (List.mem_cons_of_mem _ hx)) _ (hf acc a (hP a List.mem_cons_self) h)

theorem Trio.afterStepD {C : Cfg} {s : St} (w : WF C) (w2 : WF2 C) (t : Trio C s) (dt : ℚ) (cd : CommD) (swF : List Bool) :
    Trio C (stepD C s dt cd swF) := by
  unfold Relsad.Control.stepD
  simp only []
  have key : ∀ (ls : List Nat) (x : St), Trio C x → Trio C (ls.foldl (fun s l => Relsad.Control.lineUpdate C s l dt) x) := by
    intro ls
    induction ls with
    | nil => intro x hx; exact hx
    | cons a as ih =>
      intro x hx
      simp only [List.foldl_cons]
      obtain ⟨e1, e2, e3⟩ := lineUpdate_sw C x a dt
      exact ih _ ⟨hx.inv.lineUpdate a dt, hx.sa.congr e1 e2 e3, hx.g.congr e3 e1 e2 (lineUpdate_secConn C x a dt)⟩
  have h0 := key (List.range C.lines.length) s t
  set s0 := (List.range C.lines.length).foldl (fun s l => Relsad.Control.lineUpdate C s l dt) s with hs0
  have h1 : Trio C ({ s0 with check := (List.range C.nets.length).foldl (fun c n => if gb cd.recheck n then c.set n true else c) s0.check } : St) := by
    have klen : ∀ (ns : List Nat) (c : List Bool), (ns.foldl (fun c n => if gb cd.recheck n then c.set n true else c) c).length = c.length := by
      intro ns
      induction ns with
      | nil => intro c; rfl
      | cons a as ih => intro c; simp only [List.foldl_cons]; rw [ih]; split_ifs <;> simp
    exact ⟨h0.inv.congr rfl rfl rfl rfl rfl (klen _ _), h0.sa.congr rfl rfl rfl, h0.g.congr rfl rfl rfl rfl⟩
  have hchk : ∀ (n : Nat), n < C.nets.length → ∀ (sw : List Bool) (s2 : St), Trio C s2 →
      (Inv C (checkSensorsD C s2 n cd sw).1 ∧ AllClear C (checkSensorsD C s2 n cd sw).1 n) ∧ SA C (checkSensorsD C s2 n cd sw).1 ∧ G C (checkSensorsD C s2 n cd sw).1 :=
    fun n hn sw s2 t2 => ⟨t2.inv.checkSensD w n hn cd sw, Trio.checkSensD w w2 t2 n hn cd sw⟩
  refine trio_foldl_pair _ _ (fun n => n < C.nets.length) ?_ ?_ _ ?_
  · intro n hn; exact List.mem_range.mp (List.mem_filter.mp hn).1
  · intro acc n hn ha
    rw [mgLoopD_fst]
    exact ha.mgLoopA' w w2 n hn dt _ (hchk n hn acc.2)
  refine trio_foldl_pair _ _ (fun n => n < C.nets.length) ?_ ?_ _ h1
  · intro n hn; exact List.mem_range.mp (List.mem_filter.mp hn).1
  · intro acc n hn ha
    rw [distLoopD_fst]
    exact ha.distLoopA' w w2 n hn dt _ (hchk n hn acc.2)

theorem Trio.of_quad {C : Cfg} {s : St} (q : Quad C s) : Trio C s := ⟨q.triple.both.inv, q.triple.sa, q.g⟩

/-- a manual increment keeps the three invariants (no hypothesis about the second invariant needed) -/
theorem stepTrio {C : Cfg} {s : St} (w : WF C) (w2 : WF2 C) (t : Trio C s) (dt : ℚ) : Trio C (step C s dt) := by
  have e : step C s dt =
      ((List.range C.nets.length).filter (fun n => isMg C n)).foldl (fun s n => mgLoopA' C s n dt (fun x => checkLinesManually C x n))
        (((List.range C.nets.length).filter (fun n => !isMg C n)).foldl (fun s n => distLoopA' C s n dt (fun x => checkLinesManually C x n))
          ((List.range C.lines.length).foldl (fun s l => lineUpdate C s l dt) s)) := rfl
  rw [e]
  have key : ∀ (ls : List Nat) (x : St), Trio C x → Trio C (ls.foldl (fun s l => lineUpdate C s l dt) x) := by
    intro ls
    induction ls with
    | nil => intro x hx; exact hx
    | cons a as ih =>
      intro x hx
      simp only [List.foldl_cons]
      obtain ⟨e1, e2, e3⟩ := lineUpdate_sw C x a dt
      exact ih _ ⟨hx.inv.lineUpdate a dt, hx.sa.congr e1 e2 e3, hx.g.congr e3 e1 e2 (lineUpdate_secConn C x a dt)⟩
  have hchk : ∀ (n : Nat), n < C.nets.length → ∀ (s2 : St), Trio C s2 →
      (Inv C (checkLinesManually C s2 n) ∧ AllClear C (checkLinesManually C s2 n) n) ∧ SA C (checkLinesManually C s2 n) ∧ G C (checkLinesManually C s2 n) :=
    fun n hn s2 t2 => ⟨by obtain ⟨i, a, _, _⟩ := t2.inv.checkLines w n hn; exact ⟨i, a⟩, t2.sa.checkLines w w2 t2.inv n hn, t2.g.checkLines w w2 t2.inv n hn⟩
  have fold : ∀ (f : St → Nat → St) (ns : List Nat), (∀ n ∈ ns, n < C.nets.length) → (∀ x n, n < C.nets.length → Trio C x → Trio C (f x n)) →
      ∀ x, Trio C x → Trio C (ns.foldl f x) := by
    intro f ns
    induction ns with
    | nil => intro _ _ x hx; exact hx
    | cons a as ih =>
      intro hin hf x hx
      simp only [List.foldl_cons]
      exact ih (fun n hn => hin n (List.mem_cons_of_mem _ hn)) hf _ (hf x a (hin a List.mem_cons_self) hx)
  refine fold _ _ (fun n hn => List.mem_range.mp (List.mem_filter.mp hn).1) (fun x n hn hx => hx.mgLoopA' w w2 n hn dt _ (hchk n hn)) _ ?_
  refine fold _ _ (fun n hn => List.mem_range.mp (List.mem_filter.mp hn).1) (fun x n hn hx => hx.distLoopA' w w2 n hn dt _ (hchk n hn)) _ ?_
  exact key _ s t

theorem stepATrio {C : Cfg} {s : St} (w : WF C) (w2 : WF2 C) (t : Trio C s) (dt : ℚ) (cm : Comm) : Trio C (stepA C s dt cm) := by
  have e : stepA C s dt cm =
      ((List.range C.nets.length).filter (fun n => isMg C n)).foldl (fun s n => mgLoopA' C s n dt (fun x => checkSensors C x n cm))
        (((List.range C.nets.length).filter (fun n => !isMg C n)).foldl (fun s n => distLoopA' C s n dt (fun x => checkSensors C x n cm))
          ((List.range C.lines.length).foldl (fun s l => lineUpdate C s l dt) s)) := rfl
  rw [e]
  have key : ∀ (ls : List Nat) (x : St), Trio C x → Trio C (ls.foldl (fun s l => lineUpdate C s l dt) x) := by
    intro ls
    induction ls with
    | nil => intro x hx; exact hx
    | cons a as ih =>
      intro x hx
      simp only [List.foldl_cons]
      obtain ⟨e1, e2, e3⟩ := lineUpdate_sw C x a dt
      exact ih _ ⟨hx.inv.lineUpdate a dt, hx.sa.congr e1 e2 e3, hx.g.congr e3 e1 e2 (lineUpdate_secConn C x a dt)⟩
  have hchk : ∀ (n : Nat), n < C.nets.length → ∀ (s2 : St), Trio C s2 →
      (Inv C (checkSensors C s2 n cm) ∧ AllClear C (checkSensors C s2 n cm) n) ∧ SA C (checkSensors C s2 n cm) ∧ G C (checkSensors C s2 n cm) :=
    fun n hn s2 t2 => ⟨t2.inv.checkSens w n hn cm, t2.sa.checkSens w w2 t2.inv n hn cm, t2.g.checkSens w w2 t2.inv n hn cm⟩
  have fold : ∀ (f : St → Nat → St) (ns : List Nat), (∀ n ∈ ns, n < C.nets.length) → (∀ x n, n < C.nets.length → Trio C x → Trio C (f x n)) →
      ∀ x, Trio C x → Trio C (ns.foldl f x) := by
    intro f ns
    induction ns with
    | nil => intro _ _ x hx; exact hx
    | cons a as ih =>
      intro hin hf x hx
      simp only [List.foldl_cons]
      exact ih (fun n hn => hin n (List.mem_cons_of_mem _ hn)) hf _ (hf x a (hin a List.mem_cons_self) hx)
  refine fold _ _ (fun n hn => List.mem_range.mp (List.mem_filter.mp hn).1) (fun x n hn hx => hx.mgLoopA' w w2 n hn dt _ (hchk n hn)) _ ?_
  refine fold _ _ (fun n hn => List.mem_range.mp (List.mem_filter.mp hn).1) (fun x n hn hx => hx.distLoopA' w w2 n hn dt _ (hchk n hn)) _ ?_
  exact key _ s t

/-! ### the failure flags (`failed`, `netFailed`) are not touched by the loops that cope with devices in trouble -/

theorem nf_flagStepD (C : Cfg) (n : Nat) (cd : CommD) (acc : St × List Bool) (k : Nat) :
    (flagStepD C n cd acc k).1.netFailed = acc.1.netFailed ∧ (flagStepD C n cd acc k).1.failed = acc.1.failed := by
  unfold flagStepD
  simp only
  by_cases hf : reportedFail C acc.1 cd k = true
  · rw [if_pos hf]; exact ⟨remFold_nf _ _ _, (remFold_fields _ _ _).2.1⟩
  · rw [if_neg hf]; exact ⟨rfl, rfl⟩

theorem nf_recoStepD (C : Cfg) (n : Nat) (cd : CommD) (s : St) (k : Nat) :
    (recoStepD C n cd s k).netFailed = s.netFailed ∧ (recoStepD C n cd s k).failed = s.failed := by
  unfold recoStepD
  simp only
  split_ifs
  · exact ⟨rfl, rfl⟩
  · exact nf_secConnectManually C _ k

theorem nf_foldl_pair {α : Type} (f : St × List Bool → α → St × List Bool)
    (hf : ∀ acc a, (f acc a).1.netFailed = acc.1.netFailed ∧ (f acc a).1.failed = acc.1.failed) (l : List α) (acc : St × List Bool) :
    (l.foldl f acc).1.netFailed = acc.1.netFailed ∧ (l.foldl f acc).1.failed = acc.1.failed := by
  induction l generalizing acc with
  | nil => exact ⟨rfl, rfl⟩
  | cons a as ih =>
    simp only [List.foldl_cons]
    exact ⟨(ih _).1.trans (hf acc a).1, (ih _).2.trans (hf acc a).2⟩

theorem nf_checkSensorsD (C : Cfg) (s : St) (n : Nat) (cd : CommD) (swF : List Bool) :
    (checkSensorsD C s n cd swF).1.netFailed = s.netFailed ∧ (checkSensorsD C s n cd swF).1.failed = s.failed := by
  unfold checkSensorsD
  simp only
  have h1 := nf_foldl_pair (flagStepD C n cd) (nf_flagStepD C n cd) ((C.nets.getD n default).secs.filter (fun k => gb s.secConn k)) (s, swF)
  have h2 := nf_foldl_eq (recoStepD C n cd) (nf_recoStepD C n cd) ((C.nets.getD n default).secs.filter (fun k => !gb s.secConn k))
    (((C.nets.getD n default).secs.filter (fun k => gb s.secConn k)).foldl (flagStepD C n cd) (s, swF)).1
  exact ⟨h2.1.trans h1.1, h2.2.trans h1.2⟩

theorem nf_distLoopA' (C : Cfg) (s : St) (n : Nat) (dt : ℚ) (chk : St → St)
    (hchk : ∀ a, (chk a).netFailed = a.netFailed ∧ (chk a).failed = a.failed) :
    (distLoopA' C s n dt chk).netFailed = s.netFailed ∧ (distLoopA' C s n dt chk).failed = s.failed := by
  unfold distLoopA'
  simp only []
  exact nf_loopCore C n { s with timer := s.timer.set n (tick (gr s.timer n) dt) } chk
    (fun a => (C.nets.getD n default).children.foldl (fun (s : St) m =>
        if gb s.cbOpen (C.nets.getD m default).cb then { s with pTimer := s.pTimer.set m (gr s.timer n) } else s) a)
    hchk (fun a => ⟨childFold_nf C n _ a, (childFold_fields C n _ a).2.1⟩)

theorem nf_mgLoopA' (C : Cfg) (s : St) (n : Nat) (dt : ℚ) (chk : St → St)
    (hchk : ∀ a, (chk a).netFailed = a.netFailed ∧ (chk a).failed = a.failed) :
    (mgLoopA' C s n dt chk).netFailed = s.netFailed ∧ (mgLoopA' C s n dt chk).failed = s.failed := by
  unfold mgLoopA'
  simp only []
  exact nf_loopCore C n
    ({ s with timer := s.timer.set n (if gr s.pTimer n > tick (gr s.timer n) dt then gr s.pTimer n else tick (gr s.timer n) dt),
              pTimer := s.pTimer.set n (tick (gr s.pTimer n) dt) } : St)
    chk (fun a => a) hchk (fun _ => ⟨rfl, rfl⟩)

/-- the state the control loops of `stepD` start from: all lines updated, then the networks whose sensors came back are marked -/
def stepDStart (C : Cfg) (s : St) (dt : ℚ) (cd : CommD) : St :=
  let s0 := (List.range C.lines.length).foldl (fun s l => lineUpdate C s l dt) s
  { s0 with check := (List.range C.nets.length).foldl (fun c n => if gb cd.recheck n then c.set n true else c) s0.check }

theorem stepD_eq (C : Cfg) (s : St) (dt : ℚ) (cd : CommD) (swF : List Bool) :
    stepD C s dt cd swF =
      (((List.range C.nets.length).filter (fun n => isMg C n)).foldl (fun (acc : St × List Bool) n => mgLoopD C acc.1 n dt cd acc.2)
        (((List.range C.nets.length).filter (fun n => !isMg C n)).foldl (fun (acc : St × List Bool) n => distLoopD C acc.1 n dt cd acc.2)
          (stepDStart C s dt cd, swF))).1 := rfl

/-- `NF` (a network is flagged as having a failed line only while one of its lines is failed) survives an increment with devices in trouble -/
theorem NF.afterStepD {C : Cfg} {s : St} (w : WF C) (w2 : WF2 C) (h : NF C s) (dt : ℚ) (cd : CommD) (swF : List Bool) :
    NF C (stepD C s dt cd swF) := by
  have key : ∀ (ls : List Nat) (x : St), (∀ l ∈ ls, l < C.lines.length) → NF C x → NF C (ls.foldl (fun s l => lineUpdate C s l dt) x) := by
    intro ls
    induction ls with
    | nil => intro x _ hx; exact hx
    | cons a as ih =>
      intro x hin hx
      simp only [List.foldl_cons]
      exact ih _ (fun l hl => hin l (List.mem_cons_of_mem _ hl)) (hx.afterUpdate w w2 a (hin a List.mem_cons_self) dt)
  have h0 : NF C (stepDStart C s dt cd) :=
    (key (List.range C.lines.length) s (fun l hl => List.mem_range.mp hl) h).congr rfl rfl
  have hd : ∀ (acc : St × List Bool) (n : Nat), (distLoopD C acc.1 n dt cd acc.2).1.netFailed = acc.1.netFailed ∧
      (distLoopD C acc.1 n dt cd acc.2).1.failed = acc.1.failed := by
    intro acc n
    rw [distLoopD_fst]
    exact nf_distLoopA' C acc.1 n dt _ (fun a => nf_checkSensorsD C a n cd acc.2)
  have hm : ∀ (acc : St × List Bool) (n : Nat), (mgLoopD C acc.1 n dt cd acc.2).1.netFailed = acc.1.netFailed ∧
      (mgLoopD C acc.1 n dt cd acc.2).1.failed = acc.1.failed := by
    intro acc n
    rw [mgLoopD_fst]
    exact nf_mgLoopA' C acc.1 n dt _ (fun a => nf_checkSensorsD C a n cd acc.2)
  rw [stepD_eq]
  have e1 := nf_foldl_pair (fun (acc : St × List Bool) n => distLoopD C acc.1 n dt cd acc.2) hd
    ((List.range C.nets.length).filter (fun n => !isMg C n)) (stepDStart C s dt cd, swF)
  have e2 := nf_foldl_pair (fun (acc : St × List Bool) n => mgLoopD C acc.1 n dt cd acc.2) hm
    ((List.range C.nets.length).filter (fun n => isMg C n))
    (((List.range C.nets.length).filter (fun n => !isMg C n)).foldl (fun (acc : St × List Bool) n => distLoopD C acc.1 n dt cd acc.2)
          (stepDStart C s dt cd, swF))
  exact h0.congr (e2.2.trans e1.2) (e2.1.trans e1.1)

end Relsad.Control
