/-
The flag "this network has a failed line" (`netFailed`, read by SURVIVAL microgrids) is up whenever the
network has a failed line — an invariant of every operation — and frame lemmas: the control loops never
change failure flags, and a breaker other than the loop's own is never closed.  Used for the
whole-history form of C14's survival clause.
-/
import Relsad.Lemmas.ControlSwL

namespace Relsad.Control

/-- the network flag covers every failed line -/
def Flagged (C : Cfg) (s : St) : Prop :=
  ∀ n, n < C.nets.length → ∀ l ∈ (netOf C n).lines, gb s.failed l = true → gb s.netFailed n = true

theorem Flagged.init (C : Cfg) : Flagged C (St.init C) := by
  intro n _ l _ h
  rw [show gb (St.init C).failed l = false from gb_map_const _ _] at h; exact absurd h (by simp)

theorem Flagged.congr {C : Cfg} {s s' : St} (h : Flagged C s) (hf : s'.failed = s.failed) (hn : s'.netFailed = s.netFailed) : Flagged C s' := by
  intro n hn' l hl hfl; rw [hf] at hfl; rw [hn]; exact h n hn' l hl hfl

/-! ### which operations touch `failed` / `netFailed` -/

theorem nf_foldl_eq {α : Type} (f : St → α → St) (hf : ∀ s a, (f s a).netFailed = s.netFailed ∧ (f s a).failed = s.failed)
    (l : List α) (s : St) : (l.foldl f s).netFailed = s.netFailed ∧ (l.foldl f s).failed = s.failed := by
  induction l generalizing s with
  | nil => exact ⟨rfl, rfl⟩
  | cons a as ih =>
    simp only [List.foldl_cons]
    exact ⟨(ih _).1.trans (hf s a).1, (ih _).2.trans (hf s a).2⟩

theorem nf_cbOpenOp (C : Cfg) (s : St) (c : Nat) : (cbOpenOp C s c).netFailed = s.netFailed ∧ (cbOpenOp C s c).failed = s.failed := by
  unfold cbOpenOp
  simp only [lineDisconnect]
  exact nf_foldl_eq _ (fun s' d => by split_ifs <;> exact ⟨rfl, rfl⟩) _ _

theorem nf_cbCloseOp (C : Cfg) (s : St) (c : Nat) : (cbCloseOp C s c).netFailed = s.netFailed ∧ (cbCloseOp C s c).failed = s.failed := by
  unfold cbCloseOp
  simp only [lineConnect]
  exact nf_foldl_eq _ (fun s' d => by split_ifs <;> exact ⟨rfl, rfl⟩) _ _

theorem nf_swOpen (C : Cfg) (s : St) (sw : Sw) : (swOpen C s sw).netFailed = s.netFailed ∧ (swOpen C s sw).failed = s.failed := by
  cases sw with
  | discon d => exact ⟨rfl, rfl⟩
  | breaker c => exact nf_cbOpenOp C s c

theorem nf_secDisconnect (C : Cfg) (s : St) (k : Nat) : (secDisconnect C s k).netFailed = s.netFailed ∧ (secDisconnect C s k).failed = s.failed := by
  unfold secDisconnect
  simp only
  have h1 := nf_foldl_eq lineDisconnect (fun s' l => ⟨rfl, rfl⟩) (C.secs.getD k default).lines { s with secConn := s.secConn.set k false }
  have h2 := nf_foldl_eq (swOpen C) (fun s' sw => nf_swOpen C s' sw) (C.secs.getD k default).switches
    ((C.secs.getD k default).lines.foldl lineDisconnect { s with secConn := s.secConn.set k false })
  exact ⟨h2.1.trans h1.1, h2.2.trans h1.2⟩

theorem nf_secConnectManually (C : Cfg) (s : St) (k : Nat) :
    (secConnectManually C s k).netFailed = s.netFailed ∧ (secConnectManually C s k).failed = s.failed := by
  rw [secConnectManually_eq]
  have h1 := nf_foldl_eq (fun s l =>
      match (C.lines.getD l default).cb with
      | some c => if gb s.cbOpen c then s else lineConnect s l
      | none => lineConnect s l) (fun s' l => by
        cases (C.lines.getD l default).cb with
        | none => exact ⟨rfl, rfl⟩
        | some c => simp only; split_ifs <;> exact ⟨rfl, rfl⟩) (C.secs.getD k default).lines { s with secConn := s.secConn.set k true }
  have h2 := nf_foldl_eq (swStep C) (fun s' sw => by
      cases sw with
      | breaker c => exact ⟨rfl, rfl⟩
      | discon d =>
        unfold swStep
        simp only
        split_ifs
        · exact ⟨rfl, rfl⟩
        · cases (C.lines.getD (C.disconLine.getD d 0) default).cb with
          | none => exact ⟨rfl, rfl⟩
          | some c => simp only; split_ifs <;> exact ⟨rfl, rfl⟩) (C.secs.getD k default).switches
    ((C.secs.getD k default).lines.foldl (fun s l =>
      match (C.lines.getD l default).cb with
      | some c => if gb s.cbOpen c then s else lineConnect s l
      | none => lineConnect s l) { s with secConn := s.secConn.set k true })
  exact ⟨h2.1.trans h1.1, h2.2.trans h1.2⟩

theorem remFold_nf (T : ℚ) (ls : List Nat) (s : St) :
    (ls.foldl (fun (s : St) l => { s with rem := s.rem.set l (gr s.rem l + T) }) s).netFailed = s.netFailed := by
  induction ls generalizing s with
  | nil => rfl
  | cons a as ih => simp only [List.foldl_cons]; exact ih _

theorem nf_flagStep (C : Cfg) (n : Nat) (s : St) (k : Nat) : (flagStep C n s k).netFailed = s.netFailed ∧ (flagStep C n s k).failed = s.failed := by
  unfold flagStep
  simp only
  by_cases hf : anyFailed s (C.secs.getD k default).lines = true
  · rw [if_pos hf]; exact ⟨remFold_nf _ _ _, (remFold_fields _ _ _).2.1⟩
  · rw [if_neg hf]; exact ⟨rfl, rfl⟩

theorem nf_flagStepA (C : Cfg) (n : Nat) (cm : Comm) (s : St) (k : Nat) :
    (flagStepA C n cm s k).netFailed = s.netFailed ∧ (flagStepA C n cm s k).failed = s.failed := by
  unfold flagStepA
  simp only
  by_cases hf : anyFailed s (C.secs.getD k default).lines = true
  · rw [if_pos hf]; exact ⟨remFold_nf _ _ _, (remFold_fields _ _ _).2.1⟩
  · rw [if_neg hf]; exact ⟨rfl, rfl⟩

theorem nf_recoStep (C : Cfg) (n : Nat) (s : St) (k : Nat) : (recoStep C n s k).netFailed = s.netFailed ∧ (recoStep C n s k).failed = s.failed := by
  unfold recoStep
  simp only
  split_ifs
  · exact ⟨rfl, rfl⟩
  · exact nf_secConnectManually C s k

theorem nf_checkLinesManually (C : Cfg) (s : St) (n : Nat) :
    (checkLinesManually C s n).netFailed = s.netFailed ∧ (checkLinesManually C s n).failed = s.failed := by
  rw [checkLinesManually_eq]
  have h1 := nf_foldl_eq (flagStep C n) (nf_flagStep C n) ((netOf C n).secs.filter (fun k => gb s.secConn k)) s
  have h2 := nf_foldl_eq (recoStep C n) (nf_recoStep C n) ((netOf C n).secs.filter (fun k => !gb s.secConn k))
    (((netOf C n).secs.filter (fun k => gb s.secConn k)).foldl (flagStep C n) s)
  exact ⟨h2.1.trans h1.1, h2.2.trans h1.2⟩

theorem nf_checkSensors (C : Cfg) (s : St) (n : Nat) (cm : Comm) :
    (checkSensors C s n cm).netFailed = s.netFailed ∧ (checkSensors C s n cm).failed = s.failed := by
  rw [checkSensors_eq]
  have h1 := nf_foldl_eq (flagStepA C n cm) (nf_flagStepA C n cm) ((netOf C n).secs.filter (fun k => gb s.secConn k)) s
  have h2 := nf_foldl_eq (recoStep C n) (nf_recoStep C n) ((netOf C n).secs.filter (fun k => !gb s.secConn k))
    (((netOf C n).secs.filter (fun k => gb s.secConn k)).foldl (flagStepA C n cm) s)
  exact ⟨h2.1.trans h1.1, h2.2.trans h1.2⟩

theorem nf_checkBreakerManually (C : Cfg) (s : St) (n : Nat) :
    (checkBreakerManually C s n).netFailed = s.netFailed ∧ (checkBreakerManually C s n).failed = s.failed := by
  have hd := nf_foldl_eq (secDisconnect C) (nf_secDisconnect C) (s.failedSecs.getD n []) s
  unfold checkBreakerManually
  simp only
  split_ifs
  · exact ⟨rfl, rfl⟩
  · exact ⟨rfl, rfl⟩
  · have h2 := nf_cbCloseOp C ((s.failedSecs.getD n []).foldl (secDisconnect C) s) (C.nets.getD n default).cb
    have h3 := nf_secConnectManually C (cbCloseOp C ((s.failedSecs.getD n []).foldl (secDisconnect C) s) (C.nets.getD n default).cb)
      (C.lines.getD (C.nets.getD n default).connLine default).sec
    exact ⟨h3.1.trans (h2.1.trans hd.1), h3.2.trans (h2.2.trans hd.2)⟩
  · exact hd
  · exact ⟨rfl, rfl⟩


theorem childFold_nf (C : Cfg) (n : Nat) (ms : List Nat) (x : St) :
    (ms.foldl (fun (s : St) m => if gb s.cbOpen (C.nets.getD m default).cb then { s with pTimer := s.pTimer.set m (gr s.timer n) } else s) x).netFailed = x.netFailed := by
  induction ms generalizing x with
  | nil => rfl
  | cons m ms ih =>
    simp only [List.foldl_cons]
    split_ifs
    · exact ih _
    · exact ih _

/-- generic tail of a control loop: failure flags are not touched -/
theorem nf_loopCore (C : Cfg) (n : Nat) (s1 : St) (chk g : St → St)
    (hchk : ∀ a, (chk a).netFailed = a.netFailed ∧ (chk a).failed = a.failed)
    (hg : ∀ a, (g a).netFailed = a.netFailed ∧ (g a).failed = a.failed) :
    let r := checkBreakerManually C
      (if gb (if gb s1.cbOpen (C.nets.getD n default).cb && decide (gr s1.timer n ≤ 0) then { s1 with check := s1.check.set n true } else s1).check n
       then { g (chk (if gb s1.cbOpen (C.nets.getD n default).cb && decide (gr s1.timer n ≤ 0) then { s1 with check := s1.check.set n true } else s1)) with
              check := (g (chk (if gb s1.cbOpen (C.nets.getD n default).cb && decide (gr s1.timer n ≤ 0) then { s1 with check := s1.check.set n true } else s1))).check.set n false }
       else (if gb s1.cbOpen (C.nets.getD n default).cb && decide (gr s1.timer n ≤ 0) then { s1 with check := s1.check.set n true } else s1)) n
    r.netFailed = s1.netFailed ∧ r.failed = s1.failed := by
  intro r
  set s2 : St := (if gb s1.cbOpen (C.nets.getD n default).cb && decide (gr s1.timer n ≤ 0) then { s1 with check := s1.check.set n true } else s1) with hs2
  have h2 : s2.netFailed = s1.netFailed ∧ s2.failed = s1.failed := by rw [hs2]; split_ifs <;> exact ⟨rfl, rfl⟩
  have hb := nf_checkBreakerManually C
      (if gb s2.check n then { g (chk s2) with check := (g (chk s2)).check.set n false } else s2) n
  have h3 : (if gb s2.check n then ({ g (chk s2) with check := (g (chk s2)).check.set n false } : St) else s2).netFailed = s1.netFailed ∧
      (if gb s2.check n then ({ g (chk s2) with check := (g (chk s2)).check.set n false } : St) else s2).failed = s1.failed := by
    split_ifs
    · exact ⟨((hg _).1.trans (hchk _).1).trans h2.1, ((hg _).2.trans (hchk _).2).trans h2.2⟩
    · exact h2
  exact ⟨hb.1.trans h3.1, hb.2.trans h3.2⟩

theorem nf_distLoop (C : Cfg) (s : St) (n : Nat) (dt : ℚ) : (distLoop C s n dt).netFailed = s.netFailed ∧ (distLoop C s n dt).failed = s.failed := by
  unfold distLoop
  simp only []
  exact nf_loopCore C n { s with timer := s.timer.set n (tick (gr s.timer n) dt) } (fun x => checkLinesManually C x n)
    (fun a => (C.nets.getD n default).children.foldl (fun (s : St) m =>
        if gb s.cbOpen (C.nets.getD m default).cb then { s with pTimer := s.pTimer.set m (gr s.timer n) } else s) a)
    (fun a => nf_checkLinesManually C a n) (fun a => ⟨childFold_nf C n _ a, (childFold_fields C n _ a).2.1⟩)

theorem nf_distLoopA (C : Cfg) (s : St) (n : Nat) (dt : ℚ) (cm : Comm) :
    (distLoopA C s n dt cm).netFailed = s.netFailed ∧ (distLoopA C s n dt cm).failed = s.failed := by
  unfold distLoopA
  simp only []
  exact nf_loopCore C n { s with timer := s.timer.set n (tick (gr s.timer n) dt) } (fun x => checkSensors C x n cm)
    (fun a => (C.nets.getD n default).children.foldl (fun (s : St) m =>
        if gb s.cbOpen (C.nets.getD m default).cb then { s with pTimer := s.pTimer.set m (gr s.timer n) } else s) a)
    (fun a => nf_checkSensors C a n cm) (fun a => ⟨childFold_nf C n _ a, (childFold_fields C n _ a).2.1⟩)

theorem nf_mgLoop (C : Cfg) (s : St) (n : Nat) (dt : ℚ) : (mgLoop C s n dt).netFailed = s.netFailed ∧ (mgLoop C s n dt).failed = s.failed := by
  unfold mgLoop
  simp only []
  exact nf_loopCore C n
    ({ s with timer := s.timer.set n (if gr s.pTimer n > tick (gr s.timer n) dt then gr s.pTimer n else tick (gr s.timer n) dt),
              pTimer := s.pTimer.set n (tick (gr s.pTimer n) dt) } : St)
    (fun x => checkLinesManually C x n) (fun a => a) (fun a => nf_checkLinesManually C a n) (fun _ => ⟨rfl, rfl⟩)

theorem nf_mgLoopA (C : Cfg) (s : St) (n : Nat) (dt : ℚ) (cm : Comm) :
    (mgLoopA C s n dt cm).netFailed = s.netFailed ∧ (mgLoopA C s n dt cm).failed = s.failed := by
  unfold mgLoopA
  simp only []
  exact nf_loopCore C n
    ({ s with timer := s.timer.set n (if gr s.pTimer n > tick (gr s.timer n) dt then gr s.pTimer n else tick (gr s.timer n) dt),
              pTimer := s.pTimer.set n (tick (gr s.pTimer n) dt) } : St)
    (fun x => checkSensors C x n cm) (fun a => a) (fun a => nf_checkSensors C a n cm) (fun _ => ⟨rfl, rfl⟩)

/-! ### `Flagged` is an invariant -/

theorem Flagged.afterFail {C : Cfg} {s : St} (w : WF C) (hsz : s.netFailed.length = C.nets.length) (h : Flagged C s) (l : Nat)
    (hl : l < C.lines.length) (rep : ℚ) : Flagged C (lineFail C s l rep) := by
  set s1 : St := { s with failed := s.failed.set l true, netFailed := s.netFailed.set (C.lines.getD l default).net true, rem := s.rem.set l rep } with hs1
  have hs : (lineFail C s l rep).netFailed = s1.netFailed ∧ (lineFail C s l rep).failed = s1.failed := by
    unfold lineFail
    simp only
    split_ifs
    · have h1 := nf_cbOpenOp C s1 (C.nets.getD (C.lines.getD l default).net default).cb
      have h2 := nf_foldl_eq (fun s m => cbOpenOp C s (C.nets.getD m default).cb) (fun s' m => nf_cbOpenOp C s' _)
        (C.nets.getD (C.lines.getD l default).net default).children (cbOpenOp C s1 (C.nets.getD (C.lines.getD l default).net default).cb)
      exact ⟨h2.1.trans h1.1, h2.2.trans h1.2⟩
    · exact ⟨rfl, rfl⟩
  intro n hn i hi hfi
  rw [hs.2] at hfi; rw [hs.1]
  change gb (s.failed.set l true) i = true at hfi
  show gb (s.netFailed.set (C.lines.getD l default).net true) n = true
  rw [gb_set] at hfi
  by_cases hc : l = i ∧ l < s.failed.length
  · have hnet : (C.lines.getD l default).net = n := by
      have := (w.net_lines n hn i hi).2
      rw [← hc.1] at this; exact this
    rw [hnet]; exact gb_set_self _ _ _ (by rw [hsz]; exact hn)
  · rw [if_neg hc] at hfi
    rw [gb_set]; split_ifs
    · rfl
    · exact h n hn i hi hfi

theorem Flagged.afterUpdate {C : Cfg} {s : St} (w : WF C) (h : Flagged C s) (l : Nat) (hl : l < C.lines.length) (dt : ℚ) :
    Flagged C (lineUpdate C s l dt) := by
  -- clearing the flag happens only when `l` is the one failed line of its network
  have nf : ∀ x : St, Flagged C x → Flagged C (lineNotFail C x l) := by
    intro x hx
    unfold lineNotFail
    simp only
    intro n hn i hi hfi
    split_ifs at hfi ⊢ with hc
    · -- the only failed line of its network is repaired
      simp only [Bool.and_eq_true, beq_iff_eq] at hc
      change gb (x.failed.set l false) i = true at hfi
      have hi' := gb_set_true_imp _ _ _ hfi
      show gb (x.netFailed.set (C.lines.getD l default).net false) n = true
      by_cases hnn : (C.lines.getD l default).net = n
      · exfalso
        -- i and l are both failed lines of network n: the filter has at least two elements unless i = l
        have hlin : l ∈ (C.nets.getD (C.lines.getD l default).net default).lines := w.line_mem_net l hl
        have hiin : i ∈ (C.nets.getD (C.lines.getD l default).net default).lines := by rw [hnn]; exact hi
        have hfl : l ∈ (C.nets.getD (C.lines.getD l default).net default).lines.filter (fun k => gb x.failed k) :=
          List.mem_filter.mpr ⟨hlin, hc.2⟩
        have hfi' : i ∈ (C.nets.getD (C.lines.getD l default).net default).lines.filter (fun k => gb x.failed k) :=
          List.mem_filter.mpr ⟨hiin, hi'.1⟩
        obtain ⟨a, ha⟩ := List.length_eq_one_iff.mp hc.1
        rw [ha] at hfl hfi'
        have e1 : l = a := by simpa using hfl
        have e2 : i = a := by simpa using hfi'
        rcases hi'.2 with h1 | h1
        · exact h1 (e1.trans e2.symm)
        · -- `l` out of range of `failed`: then it cannot be failed
          have : gb x.failed l = false := by
            unfold gb; rw [List.getD_eq_getElem?_getD, List.getElem?_eq_none (Nat.le_of_not_lt h1)]; rfl
          rw [this] at hc; exact absurd hc.2 (by simp)
      · rw [gb_set_ne _ _ _ _ hnn]; exact hx n hn i hi hi'.1
    · change gb (x.failed.set l false) i = true at hfi
      exact hx n hn i hi (gb_set_true_imp _ _ _ hfi).1
  unfold lineUpdate
  simp only []
  split_ifs
  · have h1 : Flagged C ({ s with rem := s.rem.set l (gr s.rem l - dt) } : St) := Flagged.congr h rfl rfl
    have h2 := nf _ h1
    intro n hn i hi hfi
    exact h2 n hn i hi hfi
  · intro n hn i hi hfi
    exact h n hn i hi hfi
  · exact nf s h

theorem flagged_foldl {C : Cfg} {α : Type} (f : St → α → St) (l : List α)
    (hf : ∀ s a, (f s a).netFailed = s.netFailed ∧ (f s a).failed = s.failed) (s : St) (h : Flagged C s) : Flagged C (l.foldl f s) := by
  have := nf_foldl_eq f hf l s
  exact h.congr this.2 this.1


/-! ### breakers of other networks, and the survival hold -/

theorem checkSensors_cbOpen (C : Cfg) (s : St) (n : Nat) (cm : Comm) : (checkSensors C s n cm).cbOpen = s.cbOpen := by
  rw [checkSensors_eq, cbOpen_foldl_eq, cbOpen_foldl_eq]
  · intro s' k; exact (flagStepA_sw C n cm s' k).2.1
  · intro s' k
    unfold recoStep
    simp only
    split_ifs
    · rfl
    · exact secConnectManually_cbOpen C s' k

theorem checkBreaker_other_open {C : Cfg} (s : St) (n : Nat) (c : Nat) (hc : c ≠ (C.nets.getD n default).cb)
    (ho : gb s.cbOpen c = true) : gb (checkBreakerManually C s n).cbOpen c = true := by
  have hd : gb ((s.failedSecs.getD n []).foldl (secDisconnect C) s).cbOpen c = true :=
    (opens_foldl _ (fun s' k => opens_secDisconnect C s' k) _ s).cbOpen c ho
  unfold checkBreakerManually
  simp only
  split_ifs
  · exact ho
  · exact ho
  · show gb (secConnectManually C _ _).cbOpen c = true
    rw [secConnectManually_cbOpen, cbCloseOp_frame, gb_set_ne _ _ _ _ (fun e => hc e.symm)]
    exact hd
  · exact hd
  · exact ho

/-- generic tail of a control loop of network `n`: a breaker of another network that is open stays open -/
theorem loopCore_other_open (C : Cfg) (n : Nat) (s1 : St) (chk g : St → St)
    (hchk : ∀ a, (chk a).cbOpen = a.cbOpen) (hg : ∀ a, (g a).cbOpen = a.cbOpen) (c : Nat) (hc : c ≠ (C.nets.getD n default).cb)
    (ho : gb s1.cbOpen c = true) :
    gb (checkBreakerManually C
      (if gb (if gb s1.cbOpen (C.nets.getD n default).cb && decide (gr s1.timer n ≤ 0) then { s1 with check := s1.check.set n true } else s1).check n
       then { g (chk (if gb s1.cbOpen (C.nets.getD n default).cb && decide (gr s1.timer n ≤ 0) then { s1 with check := s1.check.set n true } else s1)) with
              check := (g (chk (if gb s1.cbOpen (C.nets.getD n default).cb && decide (gr s1.timer n ≤ 0) then { s1 with check := s1.check.set n true } else s1))).check.set n false }
       else (if gb s1.cbOpen (C.nets.getD n default).cb && decide (gr s1.timer n ≤ 0) then { s1 with check := s1.check.set n true } else s1)) n).cbOpen c = true := by
  apply checkBreaker_other_open _ n c hc
  set s2 : St := (if gb s1.cbOpen (C.nets.getD n default).cb && decide (gr s1.timer n ≤ 0) then { s1 with check := s1.check.set n true } else s1) with hs2
  have h2 : s2.cbOpen = s1.cbOpen := by rw [hs2]; split_ifs <;> rfl
  split_ifs
  · show gb (g (chk s2)).cbOpen c = true
    rw [hg, hchk, h2]; exact ho
  · rw [h2]; exact ho

/-- … and the loop's own breaker stays open while the survival hold applies -/
theorem loopCore_hold (C : Cfg) (n : Nat) (s1 : St) (chk g : St → St)
    (hchk : ∀ a, (chk a).cbOpen = a.cbOpen ∧ (chk a).netFailed = a.netFailed)
    (hg : ∀ a, (g a).cbOpen = a.cbOpen ∧ (g a).netFailed = a.netFailed)
    (p : Nat) (hmode : (C.nets.getD n default).mode = some .survival) (hpar : (C.nets.getD n default).parent = some p)
    (hnf : gb s1.netFailed p = true) (ho : gb s1.cbOpen (C.nets.getD n default).cb = true) :
    gb (checkBreakerManually C
      (if gb (if gb s1.cbOpen (C.nets.getD n default).cb && decide (gr s1.timer n ≤ 0) then { s1 with check := s1.check.set n true } else s1).check n
       then { g (chk (if gb s1.cbOpen (C.nets.getD n default).cb && decide (gr s1.timer n ≤ 0) then { s1 with check := s1.check.set n true } else s1)) with
              check := (g (chk (if gb s1.cbOpen (C.nets.getD n default).cb && decide (gr s1.timer n ≤ 0) then { s1 with check := s1.check.set n true } else s1))).check.set n false }
       else (if gb s1.cbOpen (C.nets.getD n default).cb && decide (gr s1.timer n ≤ 0) then { s1 with check := s1.check.set n true } else s1)) n).cbOpen
      (C.nets.getD n default).cb = true := by
  set s2 : St := (if gb s1.cbOpen (C.nets.getD n default).cb && decide (gr s1.timer n ≤ 0) then { s1 with check := s1.check.set n true } else s1) with hs2
  have h2 : s2.cbOpen = s1.cbOpen ∧ s2.netFailed = s1.netFailed := by rw [hs2]; split_ifs <;> exact ⟨rfl, rfl⟩
  set s3 : St := (if gb s2.check n then ({ g (chk s2) with check := (g (chk s2)).check.set n false } : St) else s2) with hs3
  have h3 : s3.cbOpen = s1.cbOpen ∧ s3.netFailed = s1.netFailed := by
    rw [hs3]; split_ifs
    · exact ⟨((hg _).1.trans (hchk _).1).trans h2.1, ((hg _).2.trans (hchk _).2).trans h2.2⟩
    · exact h2
  have hhold : survivalHold C s3 n = true := by
    unfold survivalHold
    rw [hmode, hpar]
    show gb s3.netFailed p = true
    rw [h3.2]; exact hnf
  have : checkBreakerManually C s3 n = s3 := by
    unfold checkBreakerManually
    simp only [hhold, if_true]
    split_ifs <;> rfl
  rw [this, h3.1]; exact ho

end Relsad.Control
