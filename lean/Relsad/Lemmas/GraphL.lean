/- Reachability: the executable closure computes exactly the reflexive-transitive closure of adjacency. -/
import Relsad.Model.Graph
import Mathlib.Logic.Relation
import Mathlib.Tactic.ByContra

namespace Relsad.Graph
open Relation

theorem mem_nbrs {es : List Edge} {x y : Nat} : y ∈ nbrs es x ↔ Adj es x y := by
  unfold nbrs Adj
  rw [List.mem_filterMap]
  constructor
  · rintro ⟨e, he, h⟩
    by_cases h1 : e.1 = x
    · simp only [h1, if_true, Option.some.injEq] at h
      left; rw [← h1, ← h]; exact he
    · by_cases h2 : e.2 = x
      · simp only [h1, if_false, h2, if_true, Option.some.injEq] at h
        right; rw [← h2, ← h]; exact he
      · simp [h1, h2] at h
  · rintro (h | h)
    · exact ⟨(x, y), h, by simp⟩
    · refine ⟨(y, x), h, ?_⟩
      by_cases hxy : y = x
      · simp [hxy]
      · simp [hxy]

theorem adj_symm {es : List Edge} {x y : Nat} (h : Adj es x y) : Adj es y x := Or.symm h

/-- edges stay inside the vertex set -/
def Closed (V : List Nat) (es : List Edge) : Prop := ∀ x y, Adj es x y → x ∈ V → y ∈ V

theorem close_spec (V : List Nat) (es : List Edge) (hE : Closed V es) (vis : List Nat) (hv : ∀ v ∈ vis, v ∈ V) :
    ∀ b, b ∈ close V es vis ↔ ∃ a ∈ vis, ReflTransGen (Adj es) a b := by
  fun_induction close V es vis with
  | case1 vis hnil =>
    intro b
    constructor
    · intro hb; exact ⟨b, hb, ReflTransGen.refl⟩
    · rintro ⟨a, ha, hab⟩
      induction hab with
      | refl => exact ha
      | @tail x y _ hxy ih =>
        by_contra hy
        have : y ∈ newOnes V es vis := mem_newOnes.mpr ⟨⟨x, ih, mem_nbrs.mpr hxy⟩, hE x y hxy (hv x ih), hy⟩
        rw [hnil] at this; cases this
  | case2 vis hne ih =>
    intro b
    have hv' : ∀ v ∈ vis ++ newOnes V es vis, v ∈ V := by
      intro v hvm
      rcases List.mem_append.mp hvm with h | h
      · exact hv v h
      · exact (mem_newOnes.mp h).2.1
    rw [ih hv' b]
    constructor
    · rintro ⟨a, ha, hab⟩
      rcases List.mem_append.mp ha with h | h
      · exact ⟨a, h, hab⟩
      · obtain ⟨⟨x, hx, hxa⟩, _, _⟩ := mem_newOnes.mp h
        exact ⟨x, hx, ReflTransGen.head (mem_nbrs.mp hxa) hab⟩
    · rintro ⟨a, ha, hab⟩
      exact ⟨a, List.mem_append_left _ ha, hab⟩

/-- **Reachability**: `b ∈ reach V es a` iff a path of edges joins `a` and `b`. -/
theorem mem_reach_iff (V : List Nat) (es : List Edge) (hE : Closed V es) (a : Nat) (ha : a ∈ V) (b : Nat) :
    b ∈ reach V es a ↔ ReflTransGen (Adj es) a b := by
  unfold reach
  rw [close_spec V es hE [a] (by intro v hv; rw [List.mem_singleton.mp hv]; exact ha) b]
  simp

theorem rtg_symm {es : List Edge} {a b : Nat} (h : ReflTransGen (Adj es) a b) : ReflTransGen (Adj es) b a := by
  induction h with
  | refl => exact ReflTransGen.refl
  | tail _ hxy ih => exact ReflTransGen.head (adj_symm hxy) ih

/-- reachability is symmetric -/
theorem reach_symm (V : List Nat) (es : List Edge) (hE : Closed V es) (a b : Nat) (ha : a ∈ V) (hb : b ∈ V) :
    b ∈ reach V es a ↔ a ∈ reach V es b := by
  rw [mem_reach_iff V es hE a ha b, mem_reach_iff V es hE b hb a]
  exact ⟨rtg_symm, rtg_symm⟩

theorem reach_subset (V : List Nat) (es : List Edge) (hE : Closed V es) (a : Nat) (ha : a ∈ V) :
    ∀ b ∈ reach V es a, b ∈ V := by
  intro b hb
  have := (mem_reach_iff V es hE a ha b).mp hb
  clear hb
  induction this with
  | refl => exact ha
  | tail _ hxy ih => exact hE _ _ hxy ih

end Relsad.Graph
