/-
Why a breaker is (still) open after a control pass (C07 / C14 timing): after its controller's loop the breaker of a
network is open only while its sectioning timer still runs, or the section of its own line contains a failed line, or
(SURVIVAL microgrids) the survival hold applies; and no loop opens or leaves open another network's breaker that was
closed.  For every state satisfying the inductive invariants, manual and ICT-based loops.
-/
import Relsad.Lemmas.ControlCalmL
import Relsad.Props.C14

namespace Relsad.Control

/-- the reason a breaker may still be open after its controller's pass -/
def OpenReason (C : Cfg) (s : St) (n : Nat) : Prop :=
  0 < gr s.timer n ∨ HasFailed C s (headSec C n) ∨ survivalHold C s n = true

theorem survivalHold_congr (C : Cfg) (a b : St) (n : Nat) (h : b.netFailed = a.netFailed) : survivalHold C b n = survivalHold C a n := by
  unfold survivalHold
  split <;> simp [h]

theorem OpenReason.congr {C : Cfg} {a b : St} {n : Nat} (h : OpenReason C a n) (ht : gr b.timer n = gr a.timer n) (hf : b.failed = a.failed)
    (hn : b.netFailed = a.netFailed) : OpenReason C b n := by
  rcases h with h | ⟨l, hl, hfl⟩ | h
  · exact Or.inl (by rw [ht]; exact h)
  · exact Or.inr (Or.inl ⟨l, hl, by rw [hf]; exact hfl⟩)
  · exact Or.inr (Or.inr (by rw [survivalHold_congr C a b n hn]; exact h))

/-- the breaker check: the own breaker stays open only for a reason; other breakers are not opened -/
theorem checkBreaker_open_only_while {C : Cfg} (w : WF C) (s : St) (i : Inv C s) (n : Nat) (hn : n < C.nets.length)
    (hL : Listed C s n) (hW : ∀ k ∈ (netOf C n).secs, gb s.secConn k = false → HasFailed C s k) :
    (gb (checkBreakerManually C s n).cbOpen (netOf C n).cb = true → OpenReason C s n) ∧
    (∀ c, c ≠ (netOf C n).cb → gb (checkBreakerManually C s n).cbOpen c = true → gb s.cbOpen c = true) := by
  have hcbl : (C.nets.getD n default).cb < s.cbOpen.length := by rw [i.sz.cbOpen]; exact w.cb_lt n hn
  -- taking the listed sections out opens no other breaker
  have discOther : ∀ c, c ≠ (netOf C n).cb → gb ((s.failedSecs.getD n []).foldl (secDisconnect C) s).cbOpen c = true → gb s.cbOpen c = true := by
    intro c hc
    have key : ∀ (ks : List Nat) (x : St), (∀ k ∈ ks, k ∈ (netOf C n).secs) → gb (ks.foldl (secDisconnect C) x).cbOpen c = true → gb x.cbOpen c = true := by
      intro ks
      induction ks with
      | nil => intro x _ h; exact h
      | cons a as ih =>
        intro x hin h
        simp only [List.foldl_cons] at h
        have h1 := ih (secDisconnect C x a) (fun k hk => hin k (List.mem_cons_of_mem _ hk)) h
        rcases secDisconnect_opens_listed C x a c h1 with h2 | h2
        · exact h2
        · exact absurd (w.sec_breaker n hn a (hin a List.mem_cons_self) c h2).1 hc
    exact key _ s (fun k hk => i.fs n hn k hk)
  constructor
  · intro hopen
    by_cases ho : gb s.cbOpen (C.nets.getD n default).cb = true
    · by_cases hh : survivalHold C s n = true
      · exact Or.inr (Or.inr hh)
      · by_cases ht : gr s.timer n ≤ 0
        · right; left
          have hh' : survivalHold C s n = false := by cases hx : survivalHold C s n; rfl; exact absurd hx hh
          by_cases hline : gb ((s.failedSecs.getD n []).foldl (secDisconnect C) s).failed (C.nets.getD n default).connLine = false
          · by_cases hsec : ((s.failedSecs.getD n []).any (fun k => (C.secs.getD k default).lines.contains (C.nets.getD n default).connLine)) = false
            · have := C14.support_reconnects C s n ho hcbl hh' ht hline hsec
              rw [show (C.nets.getD n default).cb = (netOf C n).cb from rfl] at this
              rw [this] at hopen; exact absurd hopen (by simp)
            · -- the section of the breaker's own line is listed: it is out of service, hence contains a failed line
              have hany : ((s.failedSecs.getD n []).any (fun k => (C.secs.getD k default).lines.contains (C.nets.getD n default).connLine)) = true := by
                cases hx : ((s.failedSecs.getD n []).any (fun k => (C.secs.getD k default).lines.contains (C.nets.getD n default).connLine))
                · exact absurd hx hsec
                · rfl
              rw [List.any_eq_true] at hany
              obtain ⟨k, hk, hc⟩ := hany
              have hkn := i.fs n hn k hk
              have hcl : (netOf C n).connLine ∈ (secOf C k).lines := by simpa [secOf, netOf] using hc
              have hkh : k = headSec C n := ((w.sec_lines n hn k hkn _ hcl).2.1).symm
              rw [← hkh]
              exact hW k hkn (hL k hk)
          · have hf : gb s.failed (netOf C n).connLine = true := by
              have e : ((s.failedSecs.getD n []).foldl (secDisconnect C) s).failed = s.failed :=
                (nf_foldl_eq (secDisconnect C) (nf_secDisconnect C) _ s).2
              rw [e] at hline
              cases hx : gb s.failed (C.nets.getD n default).connLine
              · exact absurd hx hline
              · exact hx
            exact ⟨(netOf C n).connLine, w.line_mem_sec _ (w.conn_lt n hn), hf⟩
        · exact Or.inl (not_le.mp ht)
    · have ho' : gb s.cbOpen (C.nets.getD n default).cb = false := by
        cases hx : gb s.cbOpen (C.nets.getD n default).cb
        · rfl
        · exact absurd hx ho
      rw [checkBreaker_noop C s n (Or.inl ho')] at hopen
      exact absurd hopen ho
  · intro c hc hopen
    unfold checkBreakerManually at hopen
    simp only at hopen
    split_ifs at hopen
    · exact hopen
    · exact hopen
    · change gb (secConnectManually C _ _).cbOpen c = true at hopen
      rw [secConnectManually_cbOpen, cbCloseOp_frame] at hopen
      exact discOther c hc (gb_set_true_imp _ _ _ hopen).1
    · exact discOther c hc hopen
    · exact hopen

/-- generic tail of a control loop -/
theorem open_core {C : Cfg} (w : WF C) (n : Nat) (hn : n < C.nets.length) (s1 : St) (b1 : Both C s1) (chk : St → St)
    (hchk : ∀ s2, Inv C s2 → Inv C (chk s2) ∧ AllClear C (chk s2) n)
    (hchk2 : ∀ s2, Inv C s2 → Listed C s2 n →
      (∀ k ∈ (netOf C n).secs, gb (chk s2).secConn k = false → HasFailed C (chk s2) k) ∧ Listed C (chk s2) n ∧ (chk s2).check = s2.check ∧
      (chk s2).failed = s2.failed ∧ (∀ j, j ∉ (netOf C n).secs → gb (chk s2).secConn j = gb s2.secConn j) ∧
      (∀ m, m ≠ n → (chk s2).failedSecs.getD m [] = s2.failedSecs.getD m []))
    (hchkF : ∀ a, (chk a).cbOpen = a.cbOpen ∧ (chk a).netFailed = a.netFailed ∧ ∀ m, m ≠ n → gr (chk a).timer m = gr a.timer m)
    (g : St → St)
    (hg : ∀ a, (g a).conn = a.conn ∧ (g a).failed = a.failed ∧ (g a).cbOpen = a.cbOpen ∧ (g a).secConn = a.secConn ∧
      (g a).failedSecs = a.failedSecs ∧ (g a).check = a.check)
    (hgF : ∀ a, (g a).netFailed = a.netFailed ∧ (g a).timer = a.timer) :
    let r := checkBreakerManually C
      (if gb (if gb s1.cbOpen (C.nets.getD n default).cb && decide (gr s1.timer n ≤ 0) then { s1 with check := s1.check.set n true } else s1).check n
       then { g (chk (if gb s1.cbOpen (C.nets.getD n default).cb && decide (gr s1.timer n ≤ 0) then { s1 with check := s1.check.set n true } else s1)) with
              check := (g (chk (if gb s1.cbOpen (C.nets.getD n default).cb && decide (gr s1.timer n ≤ 0) then { s1 with check := s1.check.set n true } else s1))).check.set n false }
       else (if gb s1.cbOpen (C.nets.getD n default).cb && decide (gr s1.timer n ≤ 0) then { s1 with check := s1.check.set n true } else s1)) n
    (gb r.cbOpen (netOf C n).cb = true → OpenReason C r n) ∧
    (∀ c, c ≠ (netOf C n).cb → gb r.cbOpen c = true → gb s1.cbOpen c = true) ∧
    r.failed = s1.failed ∧ r.netFailed = s1.netFailed ∧ (∀ m, m ≠ n → gr r.timer m = gr s1.timer m) := by
  intro r
  set s2 : St := (if gb s1.cbOpen (C.nets.getD n default).cb && decide (gr s1.timer n ≤ 0) then { s1 with check := s1.check.set n true } else s1) with hs2
  have h2 : Inv C s2 := by
    rw [hs2]; split_ifs
    · exact b1.inv.congr rfl rfl rfl rfl rfl (by simp)
    · exact b1.inv
  have e2 : s2.cbOpen = s1.cbOpen ∧ s2.failed = s1.failed ∧ s2.netFailed = s1.netFailed ∧ s2.timer = s1.timer := by
    rw [hs2]; split_ifs <;> exact ⟨rfl, rfl, rfl, rfl⟩
  have k2 : Inv2 C s2 := by
    rw [hs2]; split_ifs
    · refine ⟨?_, b1.inv2.listed⟩
      intro m hm k hk hsc
      rcases b1.inv2.why m hm k hk hsc with hw | hc
      · exact Or.inl hw
      · right
        show gb (s1.check.set n true) m = true
        rw [gb_set]; split_ifs
        · rfl
        · exact hc
    · exact b1.inv2
  set s3 : St := (if gb s2.check n then ({ g (chk s2) with check := (g (chk s2)).check.set n false } : St) else s2) with hs3
  -- what the breaker check needs at s3
  have facts : Inv C s3 ∧ Listed C s3 n ∧ (∀ k ∈ (netOf C n).secs, gb s3.secConn k = false → HasFailed C s3 k) ∧
      s3.cbOpen = s1.cbOpen ∧ s3.failed = s1.failed ∧ s3.netFailed = s1.netFailed ∧ (∀ m, m ≠ n → gr s3.timer m = gr s1.timer m) := by
    by_cases hck : gb s2.check n = true
    · obtain ⟨i3, _⟩ := hchk s2 h2
      obtain ⟨c1, c2, c3, c4, _, _⟩ := hchk2 s2 h2 (k2.listed n hn)
      obtain ⟨g1, g2, g3, g4, g5, g6⟩ := hg (chk s2)
      obtain ⟨f1, f2, f3⟩ := hchkF s2
      obtain ⟨gf1, gf2⟩ := hgF (chk s2)
      rw [hs3, if_pos hck]
      refine ⟨i3.congr g1 g2 g3 g4 g5 (by simp [g6]), ?_, ?_, g3.trans (f1.trans e2.1), g2.trans (c4.trans e2.2.1), gf1.trans (f2.trans e2.2.2.1), ?_⟩
      · intro k hk
        change k ∈ (g (chk s2)).failedSecs.getD n [] at hk
        show gb (g (chk s2)).secConn k = false
        rw [g5] at hk; rw [g4]; exact c2 k hk
      · intro k hk hsc
        change gb (g (chk s2)).secConn k = false at hsc
        rw [g4] at hsc
        obtain ⟨l, hl, hfl⟩ := c1 k hk hsc
        exact ⟨l, hl, by show gb (g (chk s2)).failed l = true; rw [g2]; exact hfl⟩
      · intro m hm
        show gr (g (chk s2)).timer m = gr s1.timer m
        rw [gf2, f3 m hm, e2.2.2.2]
    · rw [hs3, if_neg hck]
      refine ⟨h2, k2.listed n hn, ?_, e2.1, e2.2.1, e2.2.2.1, fun m _ => by rw [e2.2.2.2]⟩
      intro k hk hsc
      rcases k2.why n hn k hk hsc with h | h
      · exact h
      · exact absurd h hck
  obtain ⟨i3, l3, w3, ec, ef, en, et⟩ := facts
  obtain ⟨own, others⟩ := checkBreaker_open_only_while w s3 i3 n hn l3 w3
  have fr := nf_checkBreakerManually C s3 n
  have tm := tm_checkBreakerManually C s3 n
  have hr : r = checkBreakerManually C s3 n := rfl
  refine ⟨?_, ?_, ?_, ?_, ?_⟩
  · intro ho
    rw [hr] at ho ⊢
    exact (own ho).congr (by rw [tm.1]) fr.2 fr.1
  · intro c hc ho
    rw [hr] at ho
    rw [← ec]; exact others c hc ho
  · rw [hr, fr.2, ef]
  · rw [hr, fr.1, en]
  · intro m hm; rw [hr, tm.1]; exact et m hm

theorem gr_timer_checkLines (C : Cfg) (s : St) (n m : Nat) (hm : m ≠ n) : gr (checkLinesManually C s n).timer m = gr s.timer m := by
  rw [checkLinesManually_eq]
  have key : ∀ (ks : List Nat) (x : St), gr (ks.foldl (flagStep C n) x).timer m = gr x.timer m := by
    intro ks
    induction ks with
    | nil => intro x; rfl
    | cons a as ih =>
      intro x
      simp only [List.foldl_cons]
      rw [ih, flagStep_timer]
      split_ifs
      · exact gr_set_ne _ _ _ _ (fun e => hm e.symm)
      · rfl
  have h2 := tm_foldl_eq (recoStep C n) (tm_recoStep C n) ((netOf C n).secs.filter (fun k => !gb s.secConn k))
    (((netOf C n).secs.filter (fun k => gb s.secConn k)).foldl (flagStep C n) s)
  rw [h2.1]; exact key _ s

theorem flagStepA_timer_other (C : Cfg) (n : Nat) (cm : Comm) (s : St) (k m : Nat) (hm : m ≠ n) :
    gr (flagStepA C n cm s k).timer m = gr s.timer m := by
  unfold flagStepA
  simp only
  by_cases hf : anyFailed s (C.secs.getD k default).lines = true
  · rw [if_pos hf, remFold_timer]
    exact gr_set_ne _ _ _ _ (fun e => hm e.symm)
  · rw [if_neg hf]

theorem gr_timer_checkSensors (C : Cfg) (s : St) (n m : Nat) (cm : Comm) (hm : m ≠ n) : gr (checkSensors C s n cm).timer m = gr s.timer m := by
  rw [checkSensors_eq]
  have key : ∀ (ks : List Nat) (x : St), gr (ks.foldl (flagStepA C n cm) x).timer m = gr x.timer m := by
    intro ks
    induction ks with
    | nil => intro x; rfl
    | cons a as ih =>
      intro x
      simp only [List.foldl_cons]
      rw [ih, flagStepA_timer_other C n cm x a m hm]
  have h2 := tm_foldl_eq (recoStep C n) (tm_recoStep C n) ((netOf C n).secs.filter (fun k => !gb s.secConn k))
    (((netOf C n).secs.filter (fun k => gb s.secConn k)).foldl (flagStepA C n cm) s)
  rw [h2.1]; exact key _ s

/-- what a loop of network `n` does to breakers, and what it leaves alone -/
structure LoopOpen (C : Cfg) (n : Nat) (s r : St) : Prop where
  own : gb r.cbOpen (netOf C n).cb = true → OpenReason C r n
  others : ∀ c, c ≠ (netOf C n).cb → gb r.cbOpen c = true → gb s.cbOpen c = true
  failed : r.failed = s.failed
  netFailed : r.netFailed = s.netFailed
  timers : ∀ m, m ≠ n → gr r.timer m = gr s.timer m

theorem childFold_netFailed_timer (C : Cfg) (n : Nat) (ms : List Nat) (x : St) :
    (ms.foldl (fun (s : St) m => if gb s.cbOpen (C.nets.getD m default).cb then { s with pTimer := s.pTimer.set m (gr s.timer n) } else s) x).netFailed = x.netFailed ∧
    (ms.foldl (fun (s : St) m => if gb s.cbOpen (C.nets.getD m default).cb then { s with pTimer := s.pTimer.set m (gr s.timer n) } else s) x).timer = x.timer :=
  ⟨childFold_nf C n ms x, (childFold_tm C n ms x).1⟩

theorem distLoop_open {C : Cfg} (w : WF C) (s : St) (b : Both C s) (n : Nat) (hn : n < C.nets.length) (dt : ℚ) :
    LoopOpen C n s (distLoop C s n dt) := by
  unfold Relsad.Control.distLoop
  simp only []
  have b1 : Both C { s with timer := s.timer.set n (tick (gr s.timer n) dt) } :=
    ⟨b.inv.congr rfl rfl rfl rfl rfl rfl, b.inv2.congr rfl rfl rfl rfl⟩
  obtain ⟨o1, o2, o3, o4, o5⟩ := open_core w n hn _ b1 (fun x => checkLinesManually C x n)
    (fun s2 h2 => by obtain ⟨i, a, _, _⟩ := h2.checkLines w n hn; exact ⟨i, a⟩)
    (fun s2 h2 hL => manualCheck2 w n hn s2 h2 hL)
    (fun a => ⟨checkLinesManually_cbOpen C a n, (nf_checkLinesManually C a n).1, fun m hm => gr_timer_checkLines C a n m hm⟩)
    (fun a => (C.nets.getD n default).children.foldl (fun (s : St) m =>
        if gb s.cbOpen (C.nets.getD m default).cb then { s with pTimer := s.pTimer.set m (gr s.timer n) } else s) a)
    (fun a => childFold_fields C n _ a) (fun a => childFold_netFailed_timer C n _ a)
  exact ⟨o1, o2, o3, o4, fun m hm => by rw [o5 m hm]; exact gr_set_ne _ _ _ _ (fun e => hm e.symm)⟩

theorem distLoopA_open {C : Cfg} (w : WF C) (s : St) (b : Both C s) (n : Nat) (hn : n < C.nets.length) (dt : ℚ) (cm : Comm) :
    LoopOpen C n s (distLoopA C s n dt cm) := by
  unfold Relsad.Control.distLoopA
  simp only []
  have b1 : Both C { s with timer := s.timer.set n (tick (gr s.timer n) dt) } :=
    ⟨b.inv.congr rfl rfl rfl rfl rfl rfl, b.inv2.congr rfl rfl rfl rfl⟩
  obtain ⟨o1, o2, o3, o4, o5⟩ := open_core w n hn _ b1 (fun x => checkSensors C x n cm)
    (fun s2 h2 => h2.checkSens w n hn cm)
    (fun s2 h2 hL => sensorCheck2 w n hn cm s2 h2 hL)
    (fun a => ⟨checkSensors_cbOpen C a n cm, (nf_checkSensors C a n cm).1, fun m hm => gr_timer_checkSensors C a n m cm hm⟩)
    (fun a => (C.nets.getD n default).children.foldl (fun (s : St) m =>
        if gb s.cbOpen (C.nets.getD m default).cb then { s with pTimer := s.pTimer.set m (gr s.timer n) } else s) a)
    (fun a => childFold_fields C n _ a) (fun a => childFold_netFailed_timer C n _ a)
  exact ⟨o1, o2, o3, o4, fun m hm => by rw [o5 m hm]; exact gr_set_ne _ _ _ _ (fun e => hm e.symm)⟩

theorem mgLoop_open {C : Cfg} (w : WF C) (s : St) (b : Both C s) (n : Nat) (hn : n < C.nets.length) (dt : ℚ) :
    LoopOpen C n s (mgLoop C s n dt) := by
  unfold Relsad.Control.mgLoop
  simp only []
  have b1 : Both C ({ s with timer := s.timer.set n (if gr s.pTimer n > tick (gr s.timer n) dt then gr s.pTimer n else tick (gr s.timer n) dt),
                             pTimer := s.pTimer.set n (tick (gr s.pTimer n) dt) } : St) :=
    ⟨b.inv.congr rfl rfl rfl rfl rfl rfl, b.inv2.congr rfl rfl rfl rfl⟩
  obtain ⟨o1, o2, o3, o4, o5⟩ := open_core w n hn _ b1 (fun x => checkLinesManually C x n)
    (fun s2 h2 => by obtain ⟨i, a, _, _⟩ := h2.checkLines w n hn; exact ⟨i, a⟩)
    (fun s2 h2 hL => manualCheck2 w n hn s2 h2 hL)
    (fun a => ⟨checkLinesManually_cbOpen C a n, (nf_checkLinesManually C a n).1, fun m hm => gr_timer_checkLines C a n m hm⟩)
    (fun a => a) (fun a => ⟨rfl, rfl, rfl, rfl, rfl, rfl⟩) (fun a => ⟨rfl, rfl⟩)
  exact ⟨o1, o2, o3, o4, fun m hm => by rw [o5 m hm]; exact gr_set_ne _ _ _ _ (fun e => hm e.symm)⟩

theorem mgLoopA_open {C : Cfg} (w : WF C) (s : St) (b : Both C s) (n : Nat) (hn : n < C.nets.length) (dt : ℚ) (cm : Comm) :
    LoopOpen C n s (mgLoopA C s n dt cm) := by
  unfold Relsad.Control.mgLoopA
  simp only []
  have b1 : Both C ({ s with timer := s.timer.set n (if gr s.pTimer n > tick (gr s.timer n) dt then gr s.pTimer n else tick (gr s.timer n) dt),
                             pTimer := s.pTimer.set n (tick (gr s.pTimer n) dt) } : St) :=
    ⟨b.inv.congr rfl rfl rfl rfl rfl rfl, b.inv2.congr rfl rfl rfl rfl⟩
  obtain ⟨o1, o2, o3, o4, o5⟩ := open_core w n hn _ b1 (fun x => checkSensors C x n cm)
    (fun s2 h2 => h2.checkSens w n hn cm)
    (fun s2 h2 hL => sensorCheck2 w n hn cm s2 h2 hL)
    (fun a => ⟨checkSensors_cbOpen C a n cm, (nf_checkSensors C a n cm).1, fun m hm => gr_timer_checkSensors C a n m cm hm⟩)
    (fun a => a) (fun a => ⟨rfl, rfl, rfl, rfl, rfl, rfl⟩) (fun a => ⟨rfl, rfl⟩)
  exact ⟨o1, o2, o3, o4, fun m hm => by rw [o5 m hm]; exact gr_set_ne _ _ _ _ (fun e => hm e.symm)⟩

/-- a phase of controller loops: every network served has a reason if its breaker is open afterwards; reasons of
networks served earlier are kept -/
theorem phase_open {C : Cfg} (w : WF C) (f : St → Nat → St) (hB : ∀ s n, n < C.nets.length → Both C s → Both C (f s n))
    (hL : ∀ s n, n < C.nets.length → Both C s → LoopOpen C n s (f s n))
    (ns : List Nat) (hns : ∀ n ∈ ns, n < C.nets.length) (x : St) (bx : Both C x) :
    Both C (ns.foldl f x) ∧
    (∀ n ∈ ns, gb (ns.foldl f x).cbOpen (netOf C n).cb = true → OpenReason C (ns.foldl f x) n) ∧
    (∀ m, m < C.nets.length → (gb x.cbOpen (netOf C m).cb = true → OpenReason C x m) →
      (gb (ns.foldl f x).cbOpen (netOf C m).cb = true → OpenReason C (ns.foldl f x) m)) ∧
    (ns.foldl f x).failed = x.failed := by
  induction ns generalizing x with
  | nil => exact ⟨bx, fun _ h => absurd h List.not_mem_nil, fun _ _ h => h, rfl⟩
  | cons a as ih =>
    simp only [List.foldl_cons]
    have ha := hns a List.mem_cons_self
    have lo := hL x a ha bx
    obtain ⟨b2, own2, keep2, f2⟩ := ih (fun n hn => hns n (List.mem_cons_of_mem _ hn)) (f x a) (hB x a ha bx)
    -- one loop keeps the reasons of every other network
    have keep1 : ∀ m, m < C.nets.length → (gb x.cbOpen (netOf C m).cb = true → OpenReason C x m) →
        (gb (f x a).cbOpen (netOf C m).cb = true → OpenReason C (f x a) m) := by
      intro m hm hprev
      by_cases hma : m = a
      · subst hma; exact lo.own
      · intro ho
        have hcb : (netOf C m).cb ≠ (netOf C a).cb := fun e => hma (w.cb_inj a m ha hm e)
        exact (hprev (lo.others _ hcb ho)).congr (lo.timers m hma) lo.failed lo.netFailed
    refine ⟨b2, ?_, fun m hm hprev => keep2 m hm (keep1 m hm hprev), f2.trans lo.failed⟩
    intro n hn
    rcases List.mem_cons.mp hn with h | h
    · rw [h]; exact keep2 a ha lo.own
    · exact own2 n h

end Relsad.Control
