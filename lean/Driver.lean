import Driver.Proto
import Driver.OpsTime
import Driver.OpsBattery
import Driver.OpsFail
import Driver.OpsAcct
import Driver.OpsProf
import Driver.OpsEV
import Driver.Main
