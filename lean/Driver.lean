import Driver.Proto
import Driver.OpsTime
import Driver.Main
