#!/bin/bash
# usage: seed_verify.sh <seed-name> <worktree> <property> [more properties...]
# Confirms a seeded change (tests pass with it, demo fails with it / passes without), stores it under
# /verif/seeded/<seed-name>/ and runs the given checks against /repo with the patch applied (then reverts).
name=$1; wt=$2; shift 2
out=/verif/seeded/$name; mkdir -p $out
git -C $wt diff > $out/patch.diff
cp $wt/demo_seeded.py $out/demo_seeded.py
cd $wt
echo "== test suite with the change"; /venv/bin/python -m pytest -q -p no:cacheprovider --timeout=900 tests --deselect tests/test_examples.py 2>&1 | grep -E "passed|failed|error" | tail -2
echo "== demo with the change"; /venv/bin/python demo_seeded.py > $out/demo_with.log 2>&1; echo "exit $?"
git apply -R $out/patch.diff
echo "== demo without the change"; /venv/bin/python demo_seeded.py > $out/demo_without.log 2>&1; echo "exit $?"
git apply $out/patch.diff
cd /repo
if ! git apply --check $out/patch.diff 2>/dev/null; then echo "PATCH DOES NOT APPLY TO /repo HEAD"; exit 3; fi
git apply $out/patch.diff
cd /verif
for p in "$@"; do
  echo "== ./check $p (quick) against the seeded tree"
  ./check $p --tier quick 2>&1 | grep -v conda | tail -4 | tee $out/check_$p.log
done
git -C /repo checkout -- .
git -C /repo status --short | head -3
