#!/bin/bash
# usage: tools/sweep.sh <tier> <seed> [<seed>...]   runs every claimed check for each seed (6 at a time), prints one line per run
tier=$1; shift
cd "$(dirname "$0")/.."
(cd lean && lake build >/dev/null 2>&1)
for s in "$@"; do
  for p in C01 C02 C03 C04 C05 C06 C07 C08 C09 C10 C11 C12 C13 C14 C15 C16 C17 C18 C19 C20; do echo "$s $p"; done
done | xargs -P ${PAR:-6} -L 1 bash -c 'out=$(VERIF_SEED=$0 ./check $1 --tier '$tier' 2>&1); code=$?; echo "seed=$0 $1 exit=$code :: $(echo "$out" | grep -v conda | grep -E "VIOLATION|KNOWN|internal|exit [0-9]" | head -3 | tr "\n" " " | cut -c1-300)"'
