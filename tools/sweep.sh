#!/bin/bash
# usage: tools/sweep.sh <tier> <seed> [<seed>...]   runs every claimed check for each seed (6 at a time), prints one line per run
tier=$1; shift
cd "$(dirname "$0")/.."
(cd lean && lake build >/dev/null 2>&1)
SWEEP_LOG=$(mktemp)
trap 'rm -f $SWEEP_LOG' EXIT
for s in "$@"; do
  for p in C01 C02 C03 C04 C05 C06 C07 C08 C09 C10 C11 C12 C13 C14 C15 C16 C17 C18 C19 C20; do echo "$s $p"; done
done | xargs -P ${PAR:-6} -L 1 bash -c 'out=$(VERIF_SEED=$0 ./check $1 --tier '$tier' 2>&1); code=$?; echo "seed=$0 $1 exit=$code :: $(echo "$out" | grep -v conda | grep -E "VIOLATION|KNOWN|internal|exit [0-9]" | head -3 | tr "\n" " " | cut -c1-300)"' | tee $SWEEP_LOG
# the sweep itself fails when any check did not exit 0 (so that `vp runs` shows it)
if grep -q "exit=[1-9]" $SWEEP_LOG; then echo "SWEEP: $(grep -c 'exit=[1-9]' $SWEEP_LOG) run(s) did not exit 0"; exit 1; fi
