#!/usr/bin/env python3
"""cover_report.py <dir> : which executable lines of /repo/relsad did the checks (run with VERIF_COVER=<dir>) never reach?
Prints, per file, the unreached line ranges grouped by enclosing function.  A measurement to find blind spots of the
generators; not a check."""
import ast, glob, json, os, sys
d = sys.argv[1]
repo = os.environ.get("RELSAD_REPO", "/repo")
hit = set()
for f in glob.glob(os.path.join(d, "*.json")):
    for fn, ln in json.load(open(f)):
        hit.add((fn, ln))
tot = miss = 0
rows = []
for dp, _, fns in os.walk(os.path.join(repo, "relsad")):
    for fn in fns:
        if not fn.endswith(".py"):
            continue
        p = os.path.join(dp, fn)
        rel = os.path.relpath(p, os.path.join(repo, "relsad"))
        if rel.startswith(("examples", "visualization", "results", "test_networks")) or fn == "__init__.py":
            continue
        tree = ast.parse(open(p).read())
        funcs = []
        for node in ast.walk(tree):
            if isinstance(node, (ast.FunctionDef, ast.AsyncFunctionDef)):
                lines = set()
                for st in ast.walk(node):
                    if isinstance(st, ast.stmt) and not isinstance(st, (ast.FunctionDef, ast.ClassDef)):
                        if isinstance(st, ast.Expr) and isinstance(st.value, ast.Constant) and isinstance(st.value.value, str):
                            continue
                        # a statement counts as reached when any line of its header (up to its first nested statement) was hit
                        last = st.end_lineno
                        body = getattr(st, "body", None)
                        if isinstance(body, list) and body and isinstance(body[0], ast.stmt):
                            last = max(st.lineno, body[0].lineno - 1)
                        lines.add((st.lineno, last))
                funcs.append((node.name, node.lineno, lines))
        for name, ln0, lines in funcs:
            if name in ("__str__", "__repr__", "print_status", "plot") or name.startswith("print"):
                continue
            un = sorted(a for a, b in lines if not any((rel, l) in hit for l in range(a, b + 1)))
            tot += len(lines); miss += len(un)
            if un:
                rows.append((rel, name, ln0, len(un), len(lines), un))
rows.sort()
for rel, name, ln0, nu, nl, un in rows:
    print(f"{rel}:{ln0} {name}: {nu}/{nl} statements never executed: {un[:12]}{'...' if len(un) > 12 else ''}")
print(f"total: {tot - miss}/{tot} statements of the simulator core reached by the checks")
