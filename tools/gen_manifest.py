#!/usr/bin/env python3
"""Regenerates MANIFEST.json from the table below (kept in one place so it stays valid)."""
import json, os
HERE = os.path.dirname(os.path.dirname(os.path.abspath(__file__)))
BASE = "cd /repo && /venv/bin/python -m pytest -ra -q -p no:cacheprovider --timeout=900 --continue-on-collection-errors"

CHECKS = json.load(open(os.path.join(HERE, "tools", "checks.json")))
props = [json.loads(l)["id"] for l in open(os.path.join(HERE, "properties.jsonl"))]
checks = []
for pid in props:
    c = CHECKS.get(pid)
    if not c or c.get("skip"):
        continue
    checks.append({
        "property_id": pid,
        "quick_cmd": f"./check {pid} --tier quick",
        "thorough_cmd": f"./check {pid} --tier thorough",
        "evidence_file": f"/verif/evidence/{pid}.json",
        "replay_cmd_template": f"./check {pid} --replay {{path}}",
        "engine": "lean4-proof+correspondence",
        "level_claimed": {"category": c.get("category", "proof"), "text": c["text"], "design_ref": c.get("design_ref", f"DESIGN.md section 7 ({pid})")},
        "level_note": c["note"],
        "technique": c["technique"],
    })
na = [{"property_id": pid, "reason": CHECKS.get(pid, {}).get("skip", "check not built yet in this round; model and theorems planned in DESIGN.md section 7")}
      for pid in props if not CHECKS.get(pid) or CHECKS[pid].get("skip")]
m = {
    "version": 1,
    "setup_cmd": "./setup.sh",
    "hooks": {
        "guard": "STINEFM_RELSAD_VERIF",
        "enable": "exported by ./check (no source hooks are needed: phases are observed by wrapping module attributes at run time)",
        "baseline_off_cmd": BASE,
        "source_commits": [],
        "add_only": True,
    },
    "engines": [{"name": "lean4-proof+correspondence", "path": "/verif/lean (Lean 4 models + theorems), /verif/harness (correspondence with the real code)",
                 "serves_properties": [c["property_id"] for c in checks],
                 "kind_free_text": "machine-checked proofs in Lean 4 over hand-written executable models; every run re-ties the model to /repo by executing model (compiled Lean driver) and implementation on the same generated cases and diffing, then evaluates the property oracle on the implementation"}],
    "checks": checks,
    "not_applicable": na,
    "notes": "Entry point ./check Cxx --tier quick|thorough; evidence in /verif/evidence; known findings in /verif/known_findings.json; see DESIGN.md.",
}
json.dump(m, open(os.path.join(HERE, "MANIFEST.json"), "w"), indent=1)
print("claimed:", [c["property_id"] for c in checks])
