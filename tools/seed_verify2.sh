#!/bin/bash
# usage: seed_verify2.sh <seed-name> <worktree> <property> [more properties...]
# Like seed_verify.sh, but never touches /repo: the checks run against the sub-agent's worktree itself (RELSAD_REPO), with
# their own output / evidence directories, so that sweeps reading /repo can run at the same time.
name=$1; wt=$2; shift 2
out=/verif/seeded/$name; mkdir -p $out
git -C $wt diff > $out/patch.diff
cp $wt/demo_seeded.py $out/demo_seeded.py
cd $wt
echo "== test suite with the change"; /venv/bin/python -m pytest -q -p no:cacheprovider --timeout=900 tests --deselect tests/test_examples.py 2>&1 | grep -E "passed|failed|error" | tail -2
echo "== demo with the change"; /venv/bin/python demo_seeded.py > $out/demo_with.log 2>&1; echo "exit $?"
git apply -R $out/patch.diff
echo "== demo without the change"; /venv/bin/python demo_seeded.py > $out/demo_without.log 2>&1; echo "exit $?"
git apply $out/patch.diff
if [ "$(git -C $wt rev-parse HEAD)" != "$(git -C /repo rev-parse HEAD)" ]; then echo "NOTE: worktree is at $(git -C $wt rev-parse --short HEAD), /repo at $(git -C /repo rev-parse --short HEAD)"; fi
cd /verif
for p in "$@"; do
  echo "== ./check $p (quick) against the seeded worktree"
  o=/tmp/sv2/$name-$p; mkdir -p $o
  PYTHONPATH=/verif:$wt RELSAD_REPO=$wt VERIF_OUT=$o VERIF_EVID=$o STINEFM_RELSAD_VERIF=1 /venv/bin/python -m harness.run $p --tier quick 2>&1 | grep -v conda | tail -4 | tee $out/check_$p.log
  rm -rf $o
done
