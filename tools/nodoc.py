#!/usr/bin/env python3
"""Print a python source file with docstrings and blank lines removed (line numbers kept)."""
import ast, sys
src = open(sys.argv[1]).read()
tree = ast.parse(src)
skip = set()
for node in ast.walk(tree):
    if isinstance(node, (ast.FunctionDef, ast.ClassDef, ast.Module, ast.AsyncFunctionDef)):
        b = node.body
        if b and isinstance(b[0], ast.Expr) and isinstance(getattr(b[0], 'value', None), ast.Constant) and isinstance(b[0].value.value, str):
            for l in range(b[0].lineno, b[0].end_lineno + 1):
                skip.add(l)
lo = int(sys.argv[2]) if len(sys.argv) > 2 else 1
hi = int(sys.argv[3]) if len(sys.argv) > 3 else 10**9
for i, line in enumerate(src.splitlines(), 1):
    if i in skip or not line.strip() or i < lo or i > hi:
        continue
    print(f"{i}\t{line}")
