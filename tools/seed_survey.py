#!/usr/bin/env python3
"""Detection-rate survey: every seeded change x several VERIF_SEED values, in parallel.

Each seeded change is applied in its own scratch worktree of /repo under /tmp/survey (removed at the end);
the property check runs against that worktree (RELSAD_REPO) with its own out / evidence directories.
usage: tools/seed_survey.py [--seeds 0,1,2,3] [--only C14-a,C14-b] [--jobs 12] [--tier quick]
"""
import argparse, glob, json, os, shutil, subprocess, sys
from concurrent.futures import ThreadPoolExecutor

V = os.path.dirname(os.path.dirname(os.path.abspath(__file__)))
ROOT = "/tmp/survey"


def sh(cmd, **kw):
    return subprocess.run(cmd, shell=True, capture_output=True, text=True, **kw)


def prepare(name):
    wt = f"{ROOT}/wt/{name}"
    sh(f"git -C /repo worktree remove --force {wt}")
    r = sh(f"git -C /repo worktree add --detach {wt} HEAD")
    if r.returncode:
        return None, r.stderr
    r = sh(f"git -C {wt} apply {V}/seeded/{name}/patch.diff")
    if r.returncode:
        sh(f"git -C /repo worktree remove --force {wt}")
        return None, "patch does not apply"
    return wt, ""


def run(name, prop, wt, seed, tier):
    out = f"{ROOT}/out/{name}-{seed}"
    os.makedirs(out, exist_ok=True)
    env = dict(os.environ, PYTHONPATH=f"{V}:{wt}", RELSAD_REPO=wt, VERIF_OUT=out, VERIF_EVID=out, VERIF_SEED=str(seed),
               STINEFM_RELSAD_VERIF="1", PYTHONHASHSEED="0")
    try:
        r = subprocess.run(["/venv/bin/python", "-m", "harness.run", prop, "--tier", tier], cwd=V, env=env, capture_output=True, text=True, timeout=3600)
    except subprocess.TimeoutExpired:
        return name, seed, "timeout"
    shutil.rmtree(out, ignore_errors=True)
    return name, seed, r.returncode


def main():
    ap = argparse.ArgumentParser()
    ap.add_argument("--seeds", default="0,1,2,3")
    ap.add_argument("--only", default="")
    ap.add_argument("--jobs", type=int, default=12)
    ap.add_argument("--tier", default="quick")
    a = ap.parse_args()
    seeds = [int(x) for x in a.seeds.split(",")]
    names = sorted(os.path.basename(os.path.dirname(p)) for p in glob.glob(f"{V}/seeded/*/meta.json"))
    if a.only:
        names = [n for n in names if n in a.only.split(",")]
    os.makedirs(f"{ROOT}/wt", exist_ok=True)
    jobs, skipped = [], []
    wts = {}
    for n in names:
        meta = json.load(open(f"{V}/seeded/{n}/meta.json"))
        wt, err = prepare(n)
        if wt is None:
            skipped.append((n, err.strip()[:60]))
            continue
        wts[n] = wt
        for s in seeds:
            jobs.append((n, meta.get("detect_with", meta["breaks_property"]), wt, s, a.tier))
    res = {}
    with ThreadPoolExecutor(a.jobs) as ex:
        for name, seed, code in ex.map(lambda j: run(*j), jobs):
            res.setdefault(name, {})[seed] = code
    for n, wt in wts.items():
        sh(f"git -C /repo worktree remove --force {wt}")
    shutil.rmtree(ROOT, ignore_errors=True)
    sh("git -C /repo worktree prune")
    low = []
    for n in sorted(res):
        caught = sum(1 for c in res[n].values() if c == 1)
        line = f"{n}: caught {caught}/{len(res[n])}  " + " ".join(f"{s}:{c}" for s, c in sorted(res[n].items()))
        print(line)
        if caught < len(res[n]):
            low.append(n)
    for n, e in skipped:
        print(f"{n}: skipped ({e})")
    print("not always caught:", low)


if __name__ == "__main__":
    main()
