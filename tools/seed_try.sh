#!/bin/bash
# usage: seed_try.sh <seed-name> <property> [seeds...] : quick check of a stored seeded change over generator seeds, in a scratch
# worktree (never touches /repo's working tree); prints the exit codes and stores the last log as check_<property>.log
name=$1; p=$2; shift 2; seeds=${@:-0 1 2 3 4 5}
wt=/tmp/sv2/wt-$name-$$
git -C /repo worktree add --detach $wt HEAD -q 2>/dev/null || { echo "cannot create worktree"; exit 3; }
git -C $wt apply /verif/seeded/$name/patch.diff || { echo "patch does not apply"; git -C /repo worktree remove --force $wt; exit 3; }
cd /verif
for v in $seeds; do
  o=/tmp/sv2/$name-$p-$v; mkdir -p $o
  PYTHONPATH=/verif:$wt RELSAD_REPO=$wt VERIF_OUT=$o VERIF_EVID=$o VERIF_SEED=$v STINEFM_RELSAD_VERIF=1 /venv/bin/python -m harness.run $p --tier quick > $o/log 2>&1; echo -n "exit $? "
  grep -v conda $o/log | tail -3 | cut -c1-500 > /verif/seeded/$name/check_$p.log
  rm -rf $o
done; echo
git -C /repo worktree remove --force $wt
tail -3 /verif/seeded/$name/check_$p.log | cut -c1-300
