#!/usr/bin/env python3
"""seed_hist.py <name> <history text> : adds / replaces the history note of seeded/<name>/meta.json"""
import json, sys
p = f"/verif/seeded/{sys.argv[1]}/meta.json"
m = json.load(open(p)); m["history"] = sys.argv[2]
json.dump(m, open(p, "w"), indent=1)
