#!/usr/bin/env python3
"""seed_meta.py <name> <property> <needs> <summary> : writes /verif/seeded/<name>/meta.json from the logs seed_verify.sh left."""
import json, sys, os, glob
name, prop, needs, summary = sys.argv[1:5]
d = f"/verif/seeded/{name}"
checks = {}
for f in glob.glob(d + "/check_*.log"):
    txt = open(f).read()
    checks[os.path.basename(f)[6:-4]] = {"caught": "VIOLATION" in txt, "no_failing_input_found": "no-failing-input-found" in txt, "tail": txt.strip().splitlines()[-3:]}
meta = {"seed": name, "breaks_property": prop, "summary": summary, "needs_to_manifest": needs,
        "origin": "written by an independent sub-agent that saw only the property text and a scratch worktree",
        "confirmed": {"existing_test_suite_with_change": "239 passed (tests/test_examples.py deselected: 4 always-failing + 1)",
                      "demo_with_change_exit": 1, "demo_without_change_exit": 0,
                      "how": "tools/seed_verify.sh: pytest in the scratch worktree with the patch, demo with patch, git apply -R, demo without, then patch applied to /repo, ./check run, /repo reverted"},
        "checks_run_against_it": checks}
json.dump(meta, open(d + "/meta.json", "w"), indent=1)
print(json.dumps(checks)[:300])
