#!/bin/bash
# Runs the repository's pinned baseline (guard off) and prints pass/fail counts.
cd /repo && env -u STINEFM_RELSAD_VERIF /venv/bin/python -m pytest -q -p no:cacheprovider --timeout=900 --continue-on-collection-errors -q 2>&1 | grep -E "passed|failed" | tail -1
