#!/bin/bash
# Runs the repository's pinned baseline (guard off); prints the failing tests and the totals.
# Expected on a healthy tree: exactly the 4 always-failing example tests fail, 240 pass.
cd /repo && env -u STINEFM_RELSAD_VERIF /venv/bin/python -m pytest -q -p no:cacheprovider --timeout=900 --continue-on-collection-errors -q -rf 2>&1 | grep -E "^FAILED|^ERROR| passed| failed" | grep -v conda
