#!/bin/bash
# usage: seed_recheck.sh <seed-name> <property> [...]  : applies seeded/<seed>/patch.diff to /repo, runs the quick checks, reverts.
name=$1; shift
cd /repo
if [ -n "$(git status --short)" ]; then echo "/repo not clean"; exit 3; fi
if ! git apply --check /verif/seeded/$name/patch.diff 2>/dev/null; then echo "$name: patch does not apply"; exit 3; fi
git apply /verif/seeded/$name/patch.diff
cd /verif
for p in "$@"; do
  out=$(./check $p --tier ${TIER:-quick} 2>&1 | grep -v conda)
  echo "$name $p: $(echo "$out" | grep -E "^VIOLATION" | head -1 | cut -c1-120) || $(echo "$out" | tail -1 | sed 's/.*-> //')"
done
git -C /repo checkout -- .
